#!/usr/bin/env python3
"""Record in seeded/<id>/meta.json what the final matrix run showed for that seed (from seeded/matrix.json)."""
import json, os
V = os.path.dirname(os.path.dirname(os.path.abspath(__file__)))
rows = {r["id"]: r for r in json.load(open(os.path.join(V, "seeded", "matrix.json"))) if r.get("tier", "quick") == "quick"}
for sid, r in sorted(rows.items()):
    p = os.path.join(V, "seeded", sid, "meta.json")
    if not os.path.exists(p):
        continue
    m = json.load(open(p))
    m["check_result"] = {"command": "VERIF_REPO=<worktree with patch.diff applied> ./check %s --tier quick --no-evidence" % r["property"],
                         "exit": r.get("exit"), "detected": bool(r.get("detected")), "wall_s": r.get("wall_s"),
                         "failing_harnesses": sorted(set(h for h, s in r.get("harness_status", []) if s == "fail")),
                         "first_counterexample": (r.get("counterexamples") or [[None, None]])[0],
                         "inconclusive": r.get("inconclusive", [])[:2]}
    json.dump(m, open(p, "w"), indent=1)
print("updated", len(rows))
