#!/usr/bin/env python3
"""Regenerate MANIFEST.json from harness/plan.py (claimed properties = those with at least one harness)."""
import importlib.util, json, os, sys
V = os.path.dirname(os.path.dirname(os.path.abspath(__file__)))
spec = importlib.util.spec_from_file_location("plan", os.path.join(V, "harness", "plan.py"))
plan = importlib.util.module_from_spec(spec); spec.loader.exec_module(plan)
props = [json.loads(l) for l in open(os.path.join(V, "properties.jsonl"))]
NA = getattr(plan, "NOT_APPLICABLE", {})
checks = []
for p in props:
    pid = p["id"]
    hs = [h for h in plan.HARNESSES if pid in h["props"]]
    if not hs or pid in NA:
        continue
    meta = plan.PROPERTIES[pid]
    q = [h["name"] for h in hs if h.get("tier", "quick") == "quick"]
    t = [h["name"] for h in hs]
    checks.append({
        "property_id": pid,
        "quick_cmd": "./check %s --tier quick" % pid,
        "thorough_cmd": "./check %s --tier thorough" % pid,
        "evidence_file": "/verif/evidence/%s.json" % pid,
        "replay_cmd_template": "./check %s --replay {path}" % pid,
        "engine": "kani-cbmc",
        "technique": "bounded model checking of the compiled Rust code (Kani 0.68 / CBMC 6.11 / CaDiCaL): symbolic inputs, schedules and faults; environment as nondeterministic stubs; lockstep against an executable transcription of the specification",
        "level_claimed": {
            "category": "model_checking",
            "text": ("Holds for EVERY input within the stated bounds (SAT solver verdict UNSAT with unwinding assertions on and reachability witnesses satisfied), not a proof beyond them. "
                     + meta["claim"] + " Quick tier: %d harnesses (%s); thorough adds %d deeper instances." % (len(q), ", ".join(q), len(t) - len(q))),
            "design_ref": "DESIGN.md section 3 (%s) and section 7 (as built)" % pid,
        },
        "level_note": "Outside the claim: " + meta["outside"] + " | Assumed: " + "; ".join(meta["assumptions"]),
    })
man = {
    "version": 1,
    "setup_cmd": "./setup.sh",
    "hooks": {
        "guard": "kani",
        "enable": "no hooks are committed to /repo: every check copies /repo's working tree to a scratch directory, appends `#[cfg(kani)] include!(\"/verif/harness/inject/<crate>__<module>.rs\");` to the matching source files of the COPY and runs `cargo kani` there (cfg(kani) is set by Kani only)",
        "baseline_off_cmd": "cd /repo && cargo test --workspace --no-fail-fast --offline",
        "source_commits": [],
        "add_only": True,
    },
    "engines": [{"name": "kani-cbmc", "path": "/verif/check", "serves_properties": [c["property_id"] for c in checks],
                 "kind_free_text": "Kani 0.68.0 proof harnesses over kani::any() inputs, CBMC 6.11.0 bounded model checker, CaDiCaL SAT back end; runner /verif/vlib"}],
    "checks": checks,
    "not_applicable": [{"property_id": k, "reason": v} for k, v in sorted(NA.items())],
    "notes": "fix: commits in /repo (genuine defects found by these checks, see known_findings.txt): 84c2714 (F1), 2be8c0c (F2), 73f0449 (F3). Known finding kept: F4 (C17, key name containing TAB). Exit codes: 0 holds within bounds, 1 VIOLATION, 2 inconclusive/infrastructure (never a pass, never an alarm).",
}
json.dump(man, open(os.path.join(V, "MANIFEST.json"), "w"), indent=1)
print("MANIFEST.json:", len(checks), "checks")
