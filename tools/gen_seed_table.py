#!/usr/bin/env python3
"""Render seeded/matrix.json as the markdown table of DESIGN.md section 7.6 (between the markers)."""
import json, os, re
V = os.path.dirname(os.path.dirname(os.path.abspath(__file__)))
rows = json.load(open(os.path.join(V, "seeded", "matrix.json")))
best = {}
for r in rows:
    k = r["id"]
    cur = best.get(k)
    if cur is None or (r.get("detected") and not cur.get("detected")) or (r.get("tier") == "quick" and cur.get("tier") != "quick" and r.get("detected") == cur.get("detected")):
        best[k] = r
def what(sid):
    p = os.path.join(V, "seeded", sid, "README.md")
    try:
        for line in open(p):
            line = line.strip()
            if line and not line.startswith("#") and len(line) > 30:
                return re.sub(r"[|`*]", "", line)[:150]
    except Exception:
        pass
    return ""
out = ["| seed | property | result (tier) | caught by | first failing assertion | note |", "|---|---|---|---|---|---|"]
for sid in sorted(d for d in os.listdir(os.path.join(V, "seeded")) if re.match(r"C\d\d[a-d]$", d)):
    r = best.get(sid)
    if not r:
        out.append("| %s | %s | not run | | | |" % (sid, sid[:3])); continue
    res = "DETECTED" if r.get("detected") else ("inconclusive (exit 2)" if r.get("exit") == 2 else "missed (exit 0)")
    hs = ", ".join(sorted(set(h for h, s in r.get("harness_status", []) if s == "fail")))
    cex = (r.get("counterexamples") or [["", ""]])[0][1].strip('"')[:110]
    out.append("| %s | %s | %s (%s, %ss) | %s | %s | %s |" % (sid, r["property"], res, r.get("tier", "quick"), r.get("wall_s", "?"), hs, cex.replace("|", "/"), NOTES.get(sid, "")) if False else
               "| %s | %s | %s (%s, %ss) | %s | %s | |" % (sid, r["property"], res, r.get("tier", "quick"), r.get("wall_s", "?"), hs, cex.replace("|", "/")))
table = "\n".join(out)
p = os.path.join(V, "DESIGN.md")
s = open(p).read()
b, e = "<!-- SEED-TABLE-BEGIN -->", "<!-- SEED-TABLE-END -->"
if b in s:
    s = s[:s.index(b) + len(b)] + "\n" + table + "\n" + s[s.index(e):]
    open(p, "w").write(s)
print(table)
