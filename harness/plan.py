"""Harness registry: which Kani proof harness serves which property, at which tier, with which bounds.

Each entry: name (the #[kani::proof] fn), crate, props, tier, est_s (scheduling only), timeout, mem_gb,
desc (what it decides), funcs (real kestrel functions executed symbolically), bounds, env (environment
contracts = stubs, part of the claim), outside, replay ('playback' = solver assignment is re-executed
natively through `cargo kani playback`; 'model' = harness depends on an environment model that has no
native twin, counterexample is reported from the model run).
"""

E_AEAD = "E-AEAD: chapoly_{encrypt,decrypt}_noise replaced by an ideal AEAD table (fresh unconstrained ct||tag per seal; open = Ok(pt) iff (key,nonce,ad,ct||tag) was sealed, Err if shorter than a tag)"
E_ZERO = "E-ZERO: zeroize crate built with its erase loops cut (erasure has no functional effect)"

HARNESSES = []


def H(**kw):
    kw.setdefault("tier", "quick")
    if kw["tier"] == "thorough":
        # deeper instances are attempts under a cap: one that does not finish is reported as "not discharged"
        # (evidence: required_obligations vs obligations), never as a pass and never as an alarm
        kw.setdefault("optional", True)
    kw.setdefault("timeout", 900)
    kw.setdefault("mem_gb", 6)
    # 'playback': no nondeterministic environment model in the way => the solver's assignment is re-executed natively.
    # 'model'   : the harness depends on an environment model (ideal AEAD table, recorders returning fresh values);
    #             a counterexample is reported from the model run, with the assignment saved in the witness file.
    if kw["name"].startswith(("enc_format", "enc_faults", "enc_short_writes", "dec_attack", "dec_faults")):
        kw.setdefault("replay", "playback")  # these have a native twin (real AEAD): see DESIGN 7.4
    kw.setdefault("replay", "model" if kw["name"].startswith(("enc_", "dec_", "hdr_", "noise_", "cmd_", "main_e", "c18_blockmix", "c18_romix", "c18_envelope", "c18_public", "c19_hkdf", "c19_x25519", "c06_hkdf")) else "playback")
    if "mod" not in kw:
        n = kw["name"]
        kw["mod"] = ("encrypt::verif_enc" if n.startswith("enc_") else "decrypt::verif_dec" if n.startswith("dec_")
                     else "scrypt::verif_scrypt" if n.startswith("c18_") else "verif_wrap")
    # Kani's per-assertion reachability instrumentation doubles the checks and adds one solver call per
    # assertion; vacuity is guarded by explicit kani::cover! witnesses instead (DESIGN.md 1.3)
    if kw["name"].startswith(("dec_attack", "dec_faults")):
        kw.setdefault("model_only", ["every chunk authenticated before it has already been written"])
    kw.setdefault("kani_args", ["--no-assertion-reach-checks"])
    HARNESSES.append(kw)


# ------------------------------------------------------------------ wrappers (lib.rs)
H(name="c19_seal_noise_plumbing", crate="kestrel-crypto", props=["C19", "C06", "C07", "C08"], est_s=15,
  desc="chapoly_encrypt_noise: nonce = 00000000||LE64(counter) for every u64 counter; key/aad/plaintext forwarded to orion seal as (key, nonce, pt, Some(ad)); output = primitive's output, pt+16 bytes",
  funcs=["chapoly_encrypt_noise", "chapoly_encrypt_ietf"], bounds="all 2^64 counters, all 32-byte keys, pt 0..8 bytes, ad 0..12 bytes",
  env=["orion chacha20poly1305::seal replaced by a recorder returning unconstrained bytes"], outside="orion == RFC 8439")
H(name="c19_open_noise_plumbing", crate="kestrel-crypto", props=["C19", "C06", "C09", "C03"], est_s=15,
  desc="chapoly_decrypt_noise on inputs of every length 0..24: no panic, < 16 bytes => Err; else orion open gets (key, 00000000||LE64(counter), ct, Some(ad)), its verdict is returned",
  funcs=["chapoly_decrypt_noise", "chapoly_decrypt_ietf"], bounds="all u64 counters, input 0..24 bytes, ad 0..12",
  env=["orion chacha20poly1305::open replaced by a recorder: Err if input < 16 or dst too small, else unconstrained verdict"], outside="orion == RFC 8439; real forgery resistance")
H(name="c19_ietf_plumbing", crate="kestrel-crypto", props=["C19", "C15", "C09"], est_s=15,
  desc="chapoly_{encrypt,decrypt}_ietf forward the caller's key, 12-byte nonce, data and Some(aad); decrypt of < 16 bytes is Err not panic",
  funcs=["chapoly_encrypt_ietf", "chapoly_decrypt_ietf"], bounds="all keys/nonces, data 0..24 bytes",
  env=["orion seal/open recorders"], outside="orion == RFC 8439")
H(name="c19_x25519_plumbing", crate="kestrel-crypto", props=["C19", "C05"], est_s=30,
  desc="x25519(k,u) and PrivateKey::diffie_hellman hand exactly (k,u) to orion key_agreement; its refusal of an all-zero result becomes DhError",
  funcs=["x25519", "PrivateKey::diffie_hellman", "PrivateKey::try_from", "PublicKey::try_from"], bounds="all 32-byte k, u",
  env=["orion x25519::key_agreement replaced by a recorder with unconstrained result (Ok(any 32 bytes) | Err)"], outside="curve arithmetic; which points orion rejects")
H(name="c19_hkdf_plumbing", crate="kestrel-crypto", props=["C19", "C06"], est_s=15,
  desc="hkdf_sha256(salt, ikm, info, len) = orion HKDF-SHA256 derive_key(salt, ikm, Some(info)) into len bytes",
  funcs=["hkdf_sha256"], bounds="salt/ikm/info 0..12 bytes, len 1..34", env=["orion hkdf::sha256::derive_key recorder"], outside="orion == RFC 5869")
H(name="c19_hmac_plumbing", crate="kestrel-crypto", mod="verif_wrap_x", ext=True, props=["C19", "C06"], est_s=15, replay="model",
  desc="hmac_sha256(key, data) hands the whole key (0..140 bytes: also keys longer than the 64-byte block) and the whole data to orion HMAC-SHA256 and returns its tag unchanged",
  funcs=["hmac_sha256"], bounds="key 0..140 bytes, data 0..16 bytes (pointer/length identity: contents unconstrained)", env=["orion hmac::sha256::SecretKey::from_slice recorder (opaque key object)", "orion HmacSha256::hmac recorder with unconstrained 32-byte result"], outside="orion == RFC 2104 / FIPS 180-4")
H(name="c19_derive_public_plumbing", crate="kestrel-crypto", mod="verif_wrap_x", ext=True, props=["C19", "C05"], est_s=15, replay="model",
  desc="x25519_derive_public(sk) hands exactly the 32 private-key bytes to orion's base-point multiplication and returns its result unchanged; a refusal becomes DhError",
  funcs=["x25519_derive_public"], bounds="all 32-byte private keys", env=["orion x25519 PrivateKey::from_slice recorder (opaque key object)", "orion PublicKey::try_from(&PrivateKey) recorder with unconstrained result (Ok(any 32 bytes) | Err)"], outside="curve arithmetic (orion == RFC 7748)")
H(name="c19_sha256_plumbing", crate="kestrel-crypto", mod="verif_wrap_x", ext=True, props=["C19"], est_s=15, replay="model",
  desc="sha256(data) = orion SHA-256 digest of the whole input, returned unchanged",
  funcs=["sha256"], bounds="data 0..140 bytes", env=["orion Sha256::digest recorder with unconstrained 32-byte result"], outside="orion == FIPS 180-4")
H(name="c06_hkdf_noise_lockstep", crate="kestrel-crypto", props=["C06", "C05"], est_s=20,
  desc="hkdf_noise == Noise HKDF (two outputs) for EVERY function HMAC could be: t=HMAC(ck,ikm); o1=HMAC(t,01); o2=HMAC(t,o1||02)",
  funcs=["hkdf_noise"], bounds="all 32-byte chaining keys, ikm of 0 or 32 bytes", env=["hmac_sha256 as an uninterpreted function (record/replay)"], outside="HMAC-SHA256 itself")
H(name="c06_constants", crate="kestrel-crypto", props=["C06", "C02", "C09", "C11"], est_s=5,
  desc="frozen constants: chunk 65536, scrypt 32768/8/1, tag 16, magics 65676B10 / 65676B20", funcs=["constants"], bounds="-", env=[], outside="")

H(name="c07_secure_random_fresh", crate="kestrel-crypto", mod="verif_rng", props=["C07"], est_s=60, replay="model",
  desc="nine consecutive secure_random(32) calls return pairwise different blocks, each wholly CSPRNG output (no pooling/reuse across calls)",
  funcs=["secure_random"], bounds="9 draws of 32 bytes (288 bytes: more than a 256-byte pool)", env=["getrandom::fill stamps every 32-byte block it fills with a unique serial (fresh output), rest unconstrained"], outside="longer histories; draws of other sizes")
# ------------------------------------------------------------------ H-ENC (encrypt.rs)
ENC_FUNCS = ["encrypt::encrypt_chunks"]
ENC_DESC = ("encrypt_chunks output == format model byte for byte (BE64 counter, BE32 last flag, BE32 length, ct, tag; "
            "AAD = [magic]||flag||len; nonce = chunk index, each once), whole plaintext sealed in order one chunk per read, "
            "last flag only on final chunk, length = 32/chunk + |P|, everything flushed, streaming lag <= 2 chunks")
H(name="enc_format_cs2_key", crate="kestrel-crypto", props=["C01", "C06", "C07", "C08", "C11", "C10"], est_s=200,
  desc=ENC_DESC, funcs=ENC_FUNCS, bounds="chunk size 2; every plaintext of 0..3 bytes; EVERY partition into reads of 1..2 bytes; key mode (aad empty)",
  env=[E_AEAD, E_ZERO], outside="chunk size 65536 itself (loop is uniform in the chunk size); > 3 chunks")
H(name="enc_format_cs2_pass", crate="kestrel-crypto", props=["C02", "C06", "C07", "C08"], est_s=200,
  desc=ENC_DESC, funcs=ENC_FUNCS, bounds="chunk size 2; every plaintext of 0..3 bytes; every read partition; password mode (aad = 65676B20)",
  env=[E_AEAD, E_ZERO], outside="> 3 chunks")
H(name="enc_format_cs1", crate="kestrel-crypto", props=["C01", "C06", "C07", "C08", "C11"], est_s=200,
  desc=ENC_DESC, funcs=ENC_FUNCS, bounds="chunk size 1; plaintext 0..4 bytes (up to 4 chunks); reads fill the buffer", env=[E_AEAD, E_ZERO], outside="> 4 chunks")
H(name="enc_format_cs3_key", crate="kestrel-crypto", props=["C01", "C06", "C07", "C08", "C11"], tier="thorough", est_s=1500, timeout=5400, mem_gb=16,
  desc=ENC_DESC, funcs=ENC_FUNCS, bounds="chunk size 3; plaintext 0..5 bytes; every partition into reads of 1..3 bytes (up to 5 chunks); key mode", env=[E_AEAD, E_ZERO], outside="> 5 chunks")
H(name="enc_format_cs3_pass", crate="kestrel-crypto", props=["C02", "C06", "C07", "C08"], tier="thorough", est_s=1500, timeout=5400, mem_gb=16,
  desc=ENC_DESC, funcs=ENC_FUNCS, bounds="chunk size 3; plaintext 0..5 bytes; every read partition; password mode", env=[E_AEAD, E_ZERO], outside="> 5 chunks")
H(name="enc_faults_cs2", crate="kestrel-crypto", props=["C10"], est_s=400, mem_gb=16, rlimit_gb=40, timeout=1800,
  desc="one fault (Interrupted/WouldBlock/BrokenPipe/Other, or Ok(0) write) at a solver-chosen read/write/flush call of encrypt_chunks: never a panic; read fault => IORead, write/flush fault => IOWrite; Ok only without fault or after a retried Interrupted write; what was written is a prefix of the model output; nothing written after the failure",
  funcs=ENC_FUNCS, bounds="chunk size 2, plaintext 0..3 bytes, greedy reads, fault index 0..4, one fault per run", env=[E_AEAD, E_ZERO], outside="two or more faults per run")
H(name="enc_short_writes_cs1", crate="kestrel-crypto", props=["C10", "C01", "C02"], est_s=300, timeout=1800, mem_gb=10,
  desc="a sink whose write accepts only a solver-chosen part (>= 1 byte) of what is offered and then the rest (every write_all split once at an arbitrary point, std's real write_all loop): encrypt_chunks still succeeds and the byte stream equals the model, no byte lost or repeated",
  funcs=ENC_FUNCS + ["std::io::Write::write_all (std)"], bounds="chunk size 1, plaintext 0..1 byte (one record of 32..33 bytes); every split point of every write", env=[E_AEAD, E_ZERO], outside="sinks that split a write more than once; longer files (write_all is std code)")

# ------------------------------------------------------------------ H-DEC (decrypt.rs)
DEC_FUNCS = ["decrypt::decrypt_chunks", "decrypt::read_err", "decrypt::write_err"]
ATT_DESC = ("decrypt_chunks on a COMPLETELY UNCONSTRAINED byte stream (any content, any length) while the ideal AEAD holds one authentic file: "
            "Ok => every chunk authenticated in order up to the final-flagged one, output == complete plaintext, stream ended right there, consumed == authentic length; "
            "inside every write: only the just-authenticated chunk, whole; no panic; reads and AEAD inputs <= chunk+16")
H(name="dec_attack_cs2_n2", crate="kestrel-crypto", props=["C03", "C04", "C09", "C11", "C13"], auto_props=["C09"], est_s=300,
  desc=ATT_DESC, funcs=DEC_FUNCS, bounds="chunk size 2; authentic file of 1..2 chunks with any legal chunk lengths; attacker stream 0..70 bytes; key mode",
  env=[E_AEAD, E_ZERO], outside="real forgery probability (ideal AEAD); > 2 chunks")
H(name="dec_attack_cs2_n2_pass", crate="kestrel-crypto", props=["C03", "C04", "C02", "C09"], auto_props=["C09"], est_s=300,
  desc=ATT_DESC, funcs=DEC_FUNCS, bounds="as dec_attack_cs2_n2, password mode (aad = magic)", env=[E_AEAD, E_ZERO], outside="")
H(name="dec_attack_cs1_n3", crate="kestrel-crypto", props=["C03", "C04", "C09", "C11", "C13"], auto_props=["C09"], est_s=400,
  desc=ATT_DESC, funcs=DEC_FUNCS, bounds="chunk size 1; authentic file of 1..3 chunks; attacker stream 0..101 bytes", env=[E_AEAD, E_ZERO], outside="> 3 chunks")
H(name="dec_attack_cs3_n4", crate="kestrel-crypto", props=["C03", "C04", "C09", "C11"], auto_props=["C09"], tier="thorough", est_s=2000, timeout=5400, mem_gb=16,
  desc=ATT_DESC, funcs=DEC_FUNCS, bounds="chunk size 3; authentic file of 1..4 chunks; attacker stream 0..142 bytes", env=[E_AEAD, E_ZERO], outside="> 4 chunks")
H(name="dec_faults_cs2_n2", crate="kestrel-crypto", props=["C10", "C04"], auto_props=["C10"], est_s=400,
  desc="as dec_attack plus one fault at a solver-chosen read/write/flush call: never a panic; sink failure => IOWrite; read failure => error; success never reported over a failure; nothing written after a sink failure",
  funcs=DEC_FUNCS, bounds="chunk size 2; 1..2 chunks; fault index 0..5; one fault per run", env=[E_AEAD, E_ZERO], outside="two or more faults")
MOD_DESC = ("decrypt_chunks on the byte stream the format prescribes for an authentic file with ANY legal chunking and ANY value in the advisory "
            "counter field: Ok, output == plaintext; one trailing byte => UnexpectedData")
H(name="dec_model_cs2_n3", crate="kestrel-crypto", props=["C01", "C06", "C03", "C04"], est_s=300,
  desc=MOD_DESC, funcs=DEC_FUNCS, bounds="chunk size 2; 1..3 chunks, lengths 1..2 (final 0..2); key mode", env=[E_AEAD, E_ZERO], outside="> 3 chunks")
H(name="dec_model_cs2_n3_pass", crate="kestrel-crypto", props=["C02", "C06"], est_s=300,
  desc=MOD_DESC, funcs=DEC_FUNCS, bounds="chunk size 2; 1..3 chunks; password mode", env=[E_AEAD, E_ZERO], outside="> 3 chunks")
H(name="dec_model_cs3_n5", crate="kestrel-crypto", props=["C01", "C06"], tier="thorough", est_s=1500, timeout=5400, mem_gb=16,
  desc=MOD_DESC, funcs=DEC_FUNCS, bounds="chunk size 3; 1..5 chunks", env=[E_AEAD, E_ZERO], outside="> 5 chunks")
H(name="dec_short_reads_cs1", crate="kestrel-crypto", props=["C10", "C01", "C02"], est_s=300, timeout=1800, mem_gb=10,
  desc="the authentic stream delivered in SHORT reads (every read request answered partly, then the rest: each read_exact split once at an arbitrary point; std's real read_exact loop): same result, exactly the plaintext",
  funcs=DEC_FUNCS + ["std::io::Read::read_exact (std)"], bounds="chunk size 1, one chunk of 0..1 byte, any counter-field value; every split point of every read", env=[E_AEAD, E_ZERO], outside="sources that split a request more than once; longer files (read_exact is std code)")

# ------------------------------------------------------------------ H-HDR (header level)
HDR_ENV = ["noise_encrypt/noise_decrypt, hkdf_sha256, scrypt::scrypt, secure_random and the chunk loop replaced by recorders returning fresh unconstrained values (their own conformance: H-NOISE, C19, C18, H-ENC/H-DEC)", E_ZERO]
H(name="hdr_key_encrypt", crate="kestrel-crypto", mod="encrypt::verif_hdr_enc", props=["C01", "C05", "C06", "C07", "C08", "C13", "C11", "C10"], est_s=60,
  desc="key_encrypt: handshake gets caller's keys + prologue 65676B10; payload key = fresh 32-byte CSPRNG draw when not supplied; refused key exchange => Err and NOTHING written/flushed/read; header = magic||128-byte handshake, flushed before chunks; file key = HKDF(empty, payload key, handshake hash, 32); chunk loop gets (file key, empty aad, 65536); its result is returned",
  funcs=["encrypt::key_encrypt", "encrypt::write_err"], bounds="all key material; both caller-supplied and fresh ephemeral/payload keys; both outcomes of handshake and chunk loop", env=HDR_ENV, outside="")
H(name="hdr_key_encrypt_write_fault", crate="kestrel-crypto", mod="encrypt::verif_hdr_enc", props=["C10"], est_s=60,
  desc="key_encrypt: a failing header write => Err(IOWrite), chunk loop never runs", funcs=["encrypt::key_encrypt"], bounds="fault at header write 0 or 1", env=HDR_ENV, outside="")
H(name="hdr_pass_encrypt", crate="kestrel-crypto", mod="encrypt::verif_hdr_enc", props=["C02", "C06", "C08", "C11", "C10"], est_s=60,
  desc="pass_encrypt: key = scrypt(password, salt, 32768, 8, 1, 32); header = 65676B20||salt flushed before chunks; chunk loop gets (key, aad = magic, 65536)",
  funcs=["encrypt::pass_encrypt"], bounds="passwords of 0..4 arbitrary bytes (incl. empty, non-ASCII), all salts", env=HDR_ENV, outside="password length > 4 (the code never inspects the password)")
H(name="hdr_key_decrypt", crate="kestrel-crypto", mod="decrypt::verif_hdr_dec", props=["C01", "C03", "C05", "C06", "C09", "C13", "C04", "C12", "C10"], auto_props=["C09"], est_s=90,
  desc="key_decrypt on ANY bytes: wrong magic => Err after <= 4 bytes, nothing decrypted/written; truncated header => IORead; handshake gets (recipient keys, the 4 bytes read as prologue, bytes 4..132); failed handshake => Err, nothing written/flushed; file key = HKDF(empty, payload key, handshake hash, 32); chunk loop gets (file key, empty aad, 65536) right after byte 132; Ok(sender) iff chunks Ok and sender = the authenticated key",
  funcs=["decrypt::key_decrypt", "decrypt::valid_file_format", "decrypt::read_err"], bounds="every byte string of length 0..140 as file head", env=HDR_ENV, outside="")
H(name="hdr_pass_decrypt", crate="kestrel-crypto", mod="decrypt::verif_hdr_dec", props=["C02", "C03", "C06", "C09", "C13", "C10"], auto_props=["C09"], est_s=90,
  desc="pass_decrypt on ANY bytes: wrong magic / truncated header => Err before any key derivation or write; key = scrypt(password, bytes 4..36, 32768, 8, 1, 32) with constant cost parameters; chunk loop gets (key, aad = magic, 65536) right after byte 36",
  funcs=["decrypt::pass_decrypt", "decrypt::valid_file_format"], bounds="every byte string of length 0..60 as file head; passwords of 0..4 bytes", env=HDR_ENV, outside="")
H(name="hdr_key_decrypt_short_reads", crate="kestrel-crypto", mod="decrypt::verif_hdr_dec_x", ext=True, props=["C10", "C01"], est_s=90, replay="model",
  desc="key_decrypt accepts an authentic 132-byte header whether the source delivers each field whole or one byte short (rest on the next call), consumes exactly 132 bytes; a header that ends early is an error",
  funcs=["decrypt::key_decrypt"], bounds="file head 0..140 bytes with the key-mode magic, contents unconstrained; source: whole reads or every request one byte short", env=HDR_ENV, outside="sources that split a field in more than two reads (std read_exact is uniform in the number of retries)")
H(name="hdr_pass_decrypt_short_reads", crate="kestrel-crypto", mod="decrypt::verif_hdr_dec_x", ext=True, props=["C10", "C02"], est_s=90, replay="model",
  desc="pass_decrypt accepts an authentic 36-byte header whether each field arrives whole or one byte short, consumes exactly 36 bytes; a header that ends early is an error",
  funcs=["decrypt::pass_decrypt"], bounds="file head 0..60 bytes with the password-mode magic; source: whole reads or every request one byte short", env=HDR_ENV, outside="as hdr_key_decrypt_short_reads")
H(name="dec_wrong_key_cs2", crate="kestrel-crypto", mod="decrypt::verif_hdr_dec", props=["C02", "C13"], est_s=200,
  desc="decrypt_chunks under ANOTHER key than the file was sealed with (E-KDF: different password => different scrypt key): Err on the first chunk for every byte stream, zero writes/flushes",
  funcs=DEC_FUNCS, bounds="chunk size 2, authentic file of 1..2 chunks, any stream of 0..70 bytes", env=[E_AEAD, E_ZERO, "E-KDF: scrypt is injective in the password (cryptographic assumption)"], outside="scrypt collisions")
H(name="hdr_valid_file_format", crate="kestrel-crypto", mod="decrypt::verif_hdr_dec", props=["C09", "C06", "C03"], est_s=20, replay="playback",
  desc="valid_file_format on any 0..8 bytes: AsymV1 iff 65676B10, PassV1 iff 65676B20, else Err; never a panic", funcs=["decrypt::valid_file_format"], bounds="all byte strings of length 0..8", env=[], outside="")

# ------------------------------------------------------------------ H-NOISE
NOISE_ENV = ["crate::sha256, hkdf_noise, x25519, chapoly_{encrypt,decrypt}_noise as UNINTERPRETED functions (record in the initiator run, replay in the responder run; X25519 replays the commuted pair: DH(a,pub b) = DH(b,pub a))", E_ZERO]
for _part, _what in (("hash", "the hash chain: five MixHash inputs (h0||prologue, h||rs, h||e, h||enc s, h||enc payload) and the handshake hash"),
                     ("keys", "es = DH(e, rs), ss = DH(s, rs), MixKey chain HKDF(ck, dh) twice, Split = HKDF(ck, empty)"),
                     ("seal", "s and payload sealed under the es / ss key, nonce 0, AD = h")):
    # (a fourth slice, 'msg': message = e || enc s || enc payload read back from the heap Vec, exhausts memory;
    #  the layout is decided from the reader's side by noise_read_lockstep_* and from the header by hdr_key_encrypt)
    H(name="noise_write_lockstep_" + _part, crate="kestrel-crypto", mod="noise::verif_noise", props=["C01", "C05", "C06", "C08"], est_s=300, timeout=3000, mem_gb=9, rlimit_gb=30,
      desc="HandshakeState::{init_x, write_message} trace == Noise_X pattern of the Noise spec; this harness decides " + _what,
      funcs=["noise::HandshakeState::init_x", "noise::HandshakeState::write_message", "noise::HandshakeState::get_pubkey", "noise::SymmetricState::*", "noise::CipherState::*"],
      bounds="all key material, prologue (4 bytes) and 32-byte payload; one handshake", env=NOISE_ENV, outside="the primitives themselves (C19); payloads other than 32 bytes")
for _part, _what in (("hash", "the hash chain over prologue, OWN static key, e, enc s, enc payload; handshake hash"),
                     ("keys", "es = DH(own static, e), ss = DH(own static, decrypted sender key), MixKey chain, Split"),
                     ("open", "both values opened under the es / ss key, nonce 0, AD = h; returned payload and reported sender are what was opened")):
    H(name="noise_read_lockstep_" + _part, crate="kestrel-crypto", mod="noise::verif_noise", props=["C01", "C05", "C06"], est_s=300, timeout=3000, mem_gb=9, rlimit_gb=30,
      desc="HandshakeState::{init_x, read_message} trace on ANY 128-byte message == Noise_X responder pattern; this harness decides " + _what,
      funcs=["noise::HandshakeState::init_x", "noise::HandshakeState::read_message", "noise::HandshakeState::get_pubkey", "noise::SymmetricState::*", "noise::CipherState::*"],
      bounds="all key material, prologue and 128 message bytes; one handshake", env=NOISE_ENV, outside="the primitives themselves (C19)")
H(name="noise_ephemeral_consistency", crate="kestrel-crypto", mod="noise::verif_noise", props=["C07", "C08", "C06"], est_s=300, timeout=3000, mem_gb=9, rlimit_gb=30,
  desc="for every combination of caller-supplied ephemeral arguments (Some/None x Some/None): the 32 bytes sent in clear are the public half of the private key used for es - the caller's pair, or a FRESH 32-byte CSPRNG draw and its derived public key; never anything derived from a static key",
  funcs=["noise::HandshakeState::init_x", "noise::HandshakeState::write_message", "PrivateKey::generate", "PrivateKey::to_public"], bounds="all key material; 4 option combinations",
  env=NOISE_ENV + ["secure_random -> fresh unconstrained bytes (logged)", "x25519_derive_public uninterpreted (logged)"], outside="")
H(name="noise_dh_refusal", crate="kestrel-crypto", mod="noise::verif_noise", props=["C05"], est_s=200, timeout=1800,
  desc="write_message: an all-zero DH result at es or ss => Err(DhError), nothing sealed under a key derived from it", funcs=["noise::HandshakeState::write_message"], bounds="refusal at es or at ss; all key material", env=NOISE_ENV, outside="which points orion refuses (trusted base)")
H(name="noise_decrypt_any_len", crate="kestrel-crypto", mod="noise::verif_noise", props=["C09", "C05"], auto_props=["C09"], est_s=300, timeout=1800,
  desc="noise_decrypt on a handshake message of ANY content and ANY length 0..140 with unconstrained primitives: never a panic; < 96 bytes => Err; an all-zero DH result at es or ss (low-order ephemeral / sender key) => Err",
  funcs=["noise_decrypt", "noise::HandshakeState::read_message"], bounds="message length 0..140", env=["primitives return unconstrained results (AEAD: Err or any plaintext of length ct-16; DH: Err or any 32 bytes)", E_ZERO], outside="messages > 140 bytes (<= 65535 accepted by the code)")

# ------------------------------------------------------------------ scrypt (scrypt.rs), modular lockstep
H(name="c18_salsa_equiv", crate="kestrel-crypto", props=["C18"], est_s=200,
  desc="salsa_xor(tmp,in,out): out = tmp' = Salsa20/8(tmp XOR in) as transcribed from RFC 7914 section 3, for ALL 2x16 input words",
  funcs=["scrypt::salsa_xor"], bounds="all 2^1024 inputs (no bound)", env=[], outside="")
for _r in (1, 2, 3):
    H(name="c18_blockmix_r%d" % _r, crate="kestrel-crypto", props=["C18"], est_s=60,
      desc="block_mix == scryptBlockMix (RFC 7914 section 4) for EVERY function Salsa20/8 could be: step k hashes X xor B[k] from X = B[2r-1]; output order Y0,Y2,..,Y1,Y3,..",
      funcs=["scrypt::block_mix", "scrypt::block_copy"], bounds="r = %d, all block contents" % _r,
      env=["salsa_xor as an uninterpreted function (record/replay); its identity with Salsa20/8 is c18_salsa_equiv"], outside="r > 3 (loop uniform in r)")
for _n in (2, 4):
    H(name="c18_romix_n%d" % _n, crate="kestrel-crypto", props=["C18"], est_s=200, tier=("quick" if _n == 2 else "thorough"), timeout=3600,
      desc="smix == scryptROMix (RFC 7914 section 5) for EVERY function BlockMix could be: LE word (de)serialisation, V[i]=X fill order, j = Integerify(X) mod N on the last block's first 8 bytes LE, X = BlockMix(X xor V[j]), result written back LE",
      funcs=["scrypt::smix", "scrypt::integer", "scrypt::block_xor", "scrypt::block_copy"], bounds="N = %d, r = 1, all 128 input bytes" % _n,
      env=["block_mix as an uninterpreted function (record/replay); its identity with scryptBlockMix is c18_blockmix_r*"], outside="N > 4, r > 1 at this level")
H(name="c18_envelope_n2_r1_p1", crate="kestrel-crypto", props=["C18"], est_s=60,
  desc="scrypt() envelope == RFC 7914 section 6: B = PBKDF2(P,S,1,p*128*r); ROMix on each 128r slice in order with (r,N) and V/X/Y of the right sizes; DK = PBKDF2(P,B,1,dkLen)",
  funcs=["scrypt::scrypt"], bounds="N=2,r=1,p=1; password and salt 0..8 bytes; dkLen 1..8", env=["orion PBKDF2-HMAC-SHA256 derive_key as recorder", "smix as recorder"], outside="PBKDF2 itself; passwords > 64 bytes (orion pre-hashes)")
H(name="c18_envelope_n4_r2_p2", crate="kestrel-crypto", props=["C18"], est_s=60,
  desc="same envelope check with p = 2 (two ROMix calls on consecutive slices), r = 2, N = 4", funcs=["scrypt::scrypt"], bounds="N=4,r=2,p=2; password and salt 0..8 bytes; dkLen 1..8",
  env=["orion PBKDF2 derive_key recorder", "smix recorder"], outside="p > 2")
H(name="c18_public_wrapper", crate="kestrel-crypto", props=["C18", "C02", "C15"], est_s=30,
  desc="kestrel_crypto::scrypt(password, salt, n, r, p, len) forwards all six arguments unchanged, in order, u32 -> usize zero-extended",
  funcs=["scrypt (lib.rs wrapper)"], bounds="all u32 n, r, p; len 0..8", env=["scrypt::scrypt recorder"], outside="")

H(name="c18_ffi_scrypt", crate="kestrel-ffi", mod="verif_ffi", props=["C18"], est_s=60, replay="model", trust_alloc_checks=True,
  desc="exported C scrypt(): (password, len, salt, len, N, r, p) forwarded unchanged and in order to kestrel_crypto::scrypt (also for empty password/salt); exactly dk_len bytes = the derived key are written at derived_key; guard bytes on both sides untouched",
  funcs=["kestrel_ffi::scrypt (extern \"C\")", "kestrel_crypto::scrypt"], bounds="password/salt 0..4 bytes, all u32 N/r/p, dk_len 1..8", env=["kestrel_crypto::scrypt::scrypt recorder"], outside="NULL pointers with length 0 (from_raw_parts precondition is the caller's, per the header)")

# ------------------------------------------------------------------ C20 (REAL zeroize crate)
for _n, _d in (("c20_private_key_try_from_clone", "PrivateKey from bytes + clone, either drop order: both 32-byte blocks all-zero at release"),
               ("c20_private_key_generate", "PrivateKey::generate(): one 32-byte CSPRNG draw, erased before release"),
               ("c20_payload_key", "PayloadKey + clone, either drop order: 32 bytes read back zero after drop"),
               ("c20_zeroizing_vec", "Zeroizing<Vec<u8>> (file key / scrypt key / DH secret buffers): erased before release")):
    H(name=_n, crate="kestrel-crypto", mod="verif_zero", props=["C20"] + (["C07"] if "generate" in _n else []), est_s=60, real_zeroize=True, replay="model",
      desc=_d, funcs=["PrivateKey::{try_from, generate, clone, drop, zeroize}", "PayloadKey::{new, clone, drop, zeroize}"], bounds="all 32-byte contents; both drop orders",
      env=["alloc::alloc::dealloc_nonnull replaced by an inspector reading the block at release time", "getrandom::fill -> unconstrained bytes"],
      outside="stack copies left behind by moves (the source says so itself); concurrent drops (Kani is sequential)")

# ------------------------------------------------------------------ keyring (cli)
KR_ENV = ["E-KDF: kestrel_crypto::scrypt::scrypt as a deterministic INJECTIVE uninterpreted function that checks its cost parameters",
          "ideal AEAD on chapoly_{encrypt,decrypt}_ietf (opens iff exactly what was sealed)",
          "E-B64: <ct_codecs::Base64>::{encode,decode} as a bijection between byte strings and opaque tokens; any other string decodes to harness-chosen bytes",
          "kestrel_crypto::sha256 as a deterministic uninterpreted function", E_ZERO]
H(name="c15_lock_unlock", crate="kestrel-cli", mod="keyring::verif_keyring", props=["C15", "C16", "C17"], est_s=120, replay="model",
  desc="lock_private_key: blob = 65676B30 || salt || ChaCha20-Poly1305(key = scrypt(pw, salt, 32768, 8, 1, 32), nonce 0^12, pt = sk, aad = version), base64 of 84 bytes; unlock(lock(sk,pw),pw) = sk; any other password => PrivateKeyDecrypt",
  funcs=["keyring::Keyring::lock_private_key", "keyring::Keyring::unlock_private_key", "keyring::EncodedSk::{try_from, as_bytes, as_str}"],
  bounds="all 32-byte keys and salts; passwords of 0..4 arbitrary bytes (incl. empty, non-ASCII)", env=KR_ENV, outside="passwords > 4 bytes (never inspected by the code; > 64 is orion's pre-hash)")
H(name="c15_long_passwords", crate="kestrel-cli", mod="keyring::verif_keyring", props=["C15", "C16"], est_s=120, replay="model",
  desc="132-byte passwords count in full: lock then unlock with the same password = original key; a password differing in any ONE byte (also beyond byte 64 / 128) fails",
  funcs=["keyring::Keyring::lock_private_key", "keyring::Keyring::unlock_private_key"], bounds="all 132-byte passwords, every single-byte difference", env=KR_ENV, outside="HMAC's own pre-hashing of keys > 64 bytes (w and SHA-256(w) are the same PBKDF2 password: inherent to RFC 7914, see DESIGN 7.8)")
H(name="c15_tamper", crate="kestrel-cli", mod="keyring::verif_keyring", props=["C15", "C09"], auto_props=["C09"], est_s=120, replay="model",
  desc="a locked key with ANY one of its 84 bytes changed by any non-zero xor fails to unlock (version byte => PrivateKeyFormat); strings decoding to any other length 0..90 are rejected by EncodedSk::try_from; never a panic",
  funcs=["keyring::Keyring::unlock_private_key", "keyring::EncodedSk::try_from"], bounds="byte index 0..83, every non-zero xor; decoded lengths 0..90", env=KR_ENV, outside="multi-byte changes (each byte is covered by format check, KDF injectivity or the AEAD)")
H(name="c17_public_key_checksum", crate="kestrel-cli", mod="keyring::verif_keyring", props=["C17", "C16", "C09"], auto_props=["C09", "C17"], est_s=60, replay="model",
  desc="encode_public_key = base64(pk || SHA256(pk)[..4]); decode(encode(pk)) = pk; a 36-byte blob is usable iff last 4 bytes = SHA256(first 32)[..4]; other decoded lengths rejected; no panic",
  funcs=["keyring::Keyring::encode_public_key", "keyring::Keyring::decode_public_key", "keyring::EncodedPk::try_from"], bounds="all 32-byte keys; all 36-byte blobs; decoded lengths 0..40", env=KR_ENV, outside="SHA-256 collisions on 4 bytes")
H(name="c17_lookup", crate="kestrel-cli", mod="keyring::verif_keyring", props=["C17", "C12", "C05"], est_s=60, replay="model",
  desc="get_name_from_key / get_key on keyrings of 0..3 entries: the entry whose encoded key / name is equal, else None", funcs=["keyring::Keyring::get_name_from_key", "keyring::Keyring::get_key"], bounds="0..3 entries, sender first/last/absent", env=[], outside="")
H(name="c17_valid_key_name", crate="kestrel-cli", mod="keyring::verif_keyring", props=["C17"], est_s=20, replay="model",
  desc="valid_key_name(s) iff 1 <= len <= 128", funcs=["keyring::Keyring::valid_key_name"], bounds="lengths 0..130", env=[], outside="")

# ------------------------------------------------------------------ H-CMD (commands.rs / main.rs)
CMD_ENV = ["E-FS: in-memory model of the output path (File::create = create-or-truncate, OpenOptions append/create/truncate/write recorded at the setters, write at handle position), existence of the input path",
           "E-OS: passterm::isatty (stdin: not a tty; stdout: unconstrained), ask_pass/read_env_pass/ask_user_stderr/confirm_new_pass return a fixed password/name or fail (unconstrained choice)",
           "E-RNG: secure_random returns fresh pairwise-distinct unconstrained bytes, every draw logged",
           "E-CUT: core::fmt::write, alloc::fmt::format, std::io::{_print,_eprint}, Backtrace::capture produce nothing (message content is outside the claim)",
           "library entry points (key_encrypt/key_decrypt/pass_encrypt/pass_decrypt) and keyring primitives (open_keyring, unlock/lock_private_key, encode/decode_public_key, serialize_key) are recorders with unconstrained outcome; their own behaviour is C01-C07, C15, C17",
           E_ZERO]
# drop glue of a (never captured: E-CUT) std Backtrace iterates over frame/symbol slices; cap those two loops
BT_UNWIND = ["_RINvNtCs8xvirJzNMvV_4core3ptr9drop_glueSNtNtCs3GJ6w2eqr8A_3std9backtrace15BacktraceSymbolEBG_.0:1",
             "_RINvNtCs8xvirJzNMvV_4core3ptr9drop_glueSNtNtCs3GJ6w2eqr8A_3std9backtrace14BacktraceFrameEBG_.0:1"]
CMD_OUT = "real process exit code, getopts option tables, OS pipe/file semantics, message text; interactive retry loops (stdin is modelled as not a tty)"
H(name="cmd_ondemand_file", crate="kestrel-cli", mod="commands::verif_cmd", props=["C13", "C04", "C12", "C01", "C06", "C08"], est_s=60, replay="model",
  desc="OnDemandFile: constructing it touches nothing; the file is created at the first write OR flush, exactly once, never before", funcs=["commands::OnDemandFile::{new, write, flush, ensure_created}"],
  bounds="every sequence of 3 operations from {write, flush, nothing}; path absent or present", env=CMD_ENV[:1], outside=CMD_OUT)
H(name="cmd_gen_key_fs", crate="kestrel-cli", mod="commands::verif_cmd", props=["C14", "C13", "C16", "C07", "C12"], est_s=120, replay="model",
  desc="gen_key(Some(path)): invalid name / missing password => Err and the path untouched; else Ok, earlier contents are a byte prefix of the new contents (existing file never re-created), new file created once, flushed; private key = CSPRNG draw 1, salt = draw 2 (distinct), PublicKey = encode(derive_public(draw 1)), locked under the user's password",
  funcs=["commands::gen_key", "commands::open_output", "commands::OnDemandFile"], bounds="output path absent | present with any 0..4 bytes; one key generation from that arbitrary state (= the inductive step for any history)", env=CMD_ENV, outside=CMD_OUT + "; that the appended text parses (C17)")
# The four commands that move data. Quick tier for C12/C13 (their main subject), thorough tier for the properties they
# only touch (C05/C07/C02). Each command is split by which keyring entry is named, so that every harness has a concrete
# keyring shape (a symbolic number of entries ran the solver out of memory at 44 GB).
for _c, _p, _q in (("cmd_decrypt_flow", ["C12", "C13", "C05", "C10", "C03", "C04"], ["C12", "C13", "C10", "C03", "C04"]),
                   ("cmd_decrypt_flow_other", ["C12", "C13", "C05"], ["C12", "C13"]),
                   ("cmd_encrypt_flow", ["C12", "C13", "C07", "C05", "C10"], ["C12", "C13", "C10"]),
                   ("cmd_encrypt_flow_other", ["C12", "C13", "C05"], ["C12", "C13"]),
                   ("cmd_pass_encrypt_flow", ["C12", "C13", "C07", "C02", "C10"], ["C12", "C13", "C10"]),
                   ("cmd_pass_decrypt_flow", ["C12", "C13", "C02", "C10", "C03", "C04"], ["C12", "C13", "C10", "C03", "C04"])):
    H(name=_c, crate="kestrel-cli", mod="commands::verif_cmd", props=_p, quick_props=_q, est_s=(320 if "pass" not in _c else 220), timeout=2400,
      mem_gb=(14 if "pass" not in _c else 10), rlimit_gb=(44 if "pass" not in _c else 30), replay="model",
      desc="command returns Ok iff every pre-check passed and the library call returned Ok (errors of every kind - authentication, trailing data, chunk length, read/write failures incl. BrokenPipe - are never swallowed, success never manufactured); output path untouched unless and until the library writes; then it holds exactly what the library wrote and is never removed or renamed; keys/passwords/salts handed to the library are the ones obtained (sender looked up by the authenticated key; salt = fresh CSPRNG draw)",
      funcs=["commands::" + _c.replace("cmd_", "").replace("_flow", "").replace("_other", ""), "commands::open_input", "commands::open_output", "commands::OnDemandFile"],
      bounds="input file argument (present or missing); output path absent | present (0..4 bytes); keyring missing | two entries (a: with or without private key, b: public only); names a | b | z (absent) split over the harness pair; every outcome of password prompt, unlock, checksum, and of the library call (0..2 writes before any of its error kinds or success)", env=CMD_ENV + ["E-CUT: anyhow replaced by a plain-struct stand-in (harness/env/anyhow-min); Stdout/Stdin methods reachable through Box<dyn Write/Read> accept everything"], outside=CMD_OUT + "; stdin/stdout instead of file arguments")
for _c, _t in (("cmd_pass_decrypt_from_stdin", "quick"), ("cmd_pass_encrypt_from_stdin", "quick"),
               ("cmd_pass_decrypt_stdio", "thorough"), ("cmd_pass_decrypt_to_stdout", "thorough"), ("cmd_pass_encrypt_stdio", "thorough")):
    H(name=_c, crate="kestrel-cli", mod="commands::verif_cmd", props=["C12", "C13"], tier=_t, est_s=(250 if _t == "quick" else 1500), timeout=(2400 if _t == "quick" else 3000), mem_gb=(10 if _t == "quick" else 30), rlimit_gb=(30 if _t == "quick" else 50), replay="model",
      desc="the same command with stdin in place of the input file and/or stdout in place of -o: outcome is the same function of pre-checks and library result; nothing is created on disk when stdout is the destination and every library write reaches stdout; refused when the stream in question is a terminal; with every pre-check passing the library is called" + (" [stdout as destination ran out of memory at 36 GB in the quick tier: attempt under a larger cap]" if _t != "quick" else ""),
      funcs=["commands::" + _c.replace("cmd_", "").replace("_stdio", "").replace("_to_stdout", "").replace("_from_stdin", ""), "commands::open_input", "commands::open_output"],
      bounds="wiring fixed per harness: stdin->file (quick); stdin->stdout, file->stdout (thorough); tty-ness of both streams unconstrained; otherwise as the _flow harness", env=CMD_ENV + ["E-OS: std::io::stdout()/stdin() return an opaque handle; Stdout accepts every write, Stdin is never read by the library model"], outside=CMD_OUT)
H(name="cmd_open_keyring", crate="kestrel-cli", mod="commands::verif_cmd", props=["C12", "C17"], est_s=120, timeout=1800, mem_gb=8, replay="model",
  desc="open_keyring: the keyring is read from the -k path, else from the path in KESTREL_KEYRING (never both); unset / non-unicode variable, missing file, malformed keyring => Err; the same file gives the same keyring either way",
  funcs=["commands::open_keyring", "keyring::Keyring::new", "keyring::Keyring::parse_config"], bounds="4 file kinds x (-k | env set | env unset | env not unicode), concrete cases executed one after the other", env=["E-OS: std::env::var and std::fs::read return the modelled variable / file; String::from_utf8 on ASCII bytes", "E-STR", "E-B64", "E-CUT"], outside=CMD_OUT + "; non-UTF-8 keyring files")
H(name="cmd_change_pass", crate="kestrel-cli", mod="commands::verif_cmd", props=["C16", "C07", "C12"], est_s=120, replay="model",
  desc="change_pass: unlock(given blob, OLD password); lock(THAT key, NEW password, salt = fresh 32-byte CSPRNG draw); one line printed; any failing step => Err, nothing locked/printed",
  funcs=["commands::change_pass"], bounds="one step from an arbitrary (key, blob, passwords) state", env=CMD_ENV, outside=CMD_OUT + "; text of the printed line")
H(name="cmd_extract_pub", crate="kestrel-cli", mod="commands::verif_cmd", props=["C16", "C12"], est_s=120, replay="model",
  desc="extract_pub: unlock(given blob, password) -> derive public key of exactly that private key -> keyring encoding -> one line printed; nothing else", funcs=["commands::extract_pub"], bounds="all outcomes of prompt / decode / unlock", env=CMD_ENV, outside=CMD_OUT)
H(name="cmd_env_passwords", crate="kestrel-cli", mod="commands::verif_cmd", props=["C16", "C02", "C14", "C12"], est_s=120, replay="model",
  desc="ask_pass / confirm_password / confirm_new_pass / read_env_pass with --env-pass: the password is the value of KESTREL_PASSWORD (KESTREL_NEW_PASSWORD for change-pass's new password) byte for byte, whitespace included; unset variable => Err",
  funcs=["commands::ask_pass", "commands::confirm_password", "commands::confirm_new_pass", "commands::read_env_pass", "commands::read_env_new_pass"], bounds="variable set (value with leading/trailing space) or unset; four entry points",
  env=["std::env::var replaced by a model keyed on the variable name"] + CMD_ENV[3:4], outside="interactive prompts (passterm)")
H(name="main_exit_status", crate="kestrel-cli", mod="verif_main", props=["C12"], est_s=60, replay="model",
  desc="main(): process::exit(1) is called iff try_main returned Err, after printing an error line; otherwise main returns normally (status 0)", funcs=["main"], bounds="both outcomes of try_main", env=["try_main, process::exit, _eprint replaced by recorders"], outside=CMD_OUT)
H(name="main_slice_args", crate="kestrel-cli", mod="verif_main", props=["C09", "C12"], est_s=30, replay="playback",
  desc="slice_args(args, idx) never panics: remainder after idx or empty", funcs=["slice_args"], bounds="0..4 args, idx 0..6", env=[], outside="")

# std's substring search nests loops (CharSearcher::next_match -> memchr): with one global bound the nesting is
# quadratic and symex runs out of memory inside the first `lines().next()`. Per-loop bounds for lines <= 62 bytes:
STR_UNWIND = ["_RNvNtNtCs8xvirJzNMvV_4core5slice6memchr12memchr_naive{CLI}.0:17",
              "_RNvNvNtNtCs8xvirJzNMvV_4core5slice6memchr14memchr_aligned7runtime{CLI}.0:4",
              "_RNvXs_NtNtCs8xvirJzNMvV_4core3str7patternNtB4_12CharSearcherNtB4_8Searcher10next_match{CLI}.0:4",
              "_RNvMs2_Nt{CLI}7keyringNtB5_7Keyring12parse_config.0:8"]
PARSER_OUT = "arbitrary UTF-8 texts and exhaustive token sequences: std's str::lines/trim/retain/memchr on symbolic text are out of reach of the bit-blasting back end in quick-tier time (DESIGN 6.1)"
H(name="c17_name_roundtrip", tier="thorough", optional=True, crate="kestrel-cli", mod="keyring::verif_keyring", props=["C17", "C14"], est_s=3000, timeout=2400, mem_gb=16, replay="model",
  desc="the [Key] section text key generation writes (transcribed format) for ANY accepted name of 1..3 ASCII bytes without TAB parses back to exactly that name and public key, and is found by get_key",
  funcs=["keyring::Keyring::new", "keyring::Keyring::parse_config", "keyring::Keyring::add_key", "keyring::Keyring::get_key", "keyring::EncodedPk::try_from"],
  bounds="names of 1..3 ASCII bytes (no NUL, LF, TAB; no leading/trailing whitespace)", env=KR_ENV[2:3] + ["E-STR: str::trim, String::retain, <Lines as Iterator>::next, str::split_once(char) replaced by byte-level models exact for ASCII text (std's char-iterator implementations cost ~3 minutes of symbolic execution per input line); guarded by estr_selftest"], outside="names > 3 bytes; non-ASCII names; serialize_key's own formatting (transcribed)")
H(name="env_const_alias_guard", crate="kestrel-cli", mod="keyring::verif_keyring", props=["C17", "C15", "C16"], est_s=5, timeout=600, replay="model",
  desc="environment guard: writing the E-B64 model's state does not change unrelated constants (Kani 0.68 conflated `static mut ATT_LEN: usize = 0` of the patched ct-codecs with liballoc's Cap::ZERO, giving every Vec::new() capacity ATT_LEN)", funcs=[], bounds="-", env=["E-B64"], outside="-")
H(name="estr_selftest", crate="kestrel-cli", mod="keyring::verif_keyring", props=["C17"], est_s=30, timeout=900, replay="model",
  desc="E-STR self-test: lines / trim / retain / split_once models called through their std names give the documented results on concrete texts (guards the environment model, not kestrel)", funcs=[], bounds="concrete", env=["E-STR"], outside="-")
for _n, _l, _est in (("c17_tokens_l4", 4, 3000), ("c17_tokens_l6", 6, 5000)):
    H(name=_n, crate="kestrel-cli", mod="keyring::verif_keyring", props=["C17", "C09"], auto_props=["C09", "C17"], tier="thorough", optional=True, est_s=_est, timeout=2400, mem_gb=20, rlimit_gb=40, replay="model", cbmc_args=["--max-field-sensitivity-array-size", "128"],
      desc="Keyring::new on EVERY file of %d lines, each line one of 10 tokens ([Key], Name=a|b, PublicKey=P|Q, malformed PrivateKey, comment, blank, junk, field without value), solver-chosen: accepted iff a token-level state machine of the documented rule accepts; on acceptance the entries are the sections in order; never a panic" % _l,
      funcs=["keyring::Keyring::new", "keyring::Keyring::parse_config", "keyring::Keyring::add_key", "keyring::Keyring::valid_key_name", "keyring::EncodedPk::try_from", "keyring::EncodedSk::try_from"],
      bounds="10^%d files: %d lines x 10 tokens, each padded with blanks to 14 columns (concrete layout, solver-chosen content); shorter files are covered through blank lines" % (_l, _l), env=KR_ENV[2:3] + ["E-STR (see c17_shapes)"], outside=PARSER_OUT + "; well-formed PrivateKey lines (the E-B64 model has one decode length per run)")
H(name="c17_names_concrete", crate="kestrel-cli", mod="keyring::verif_keyring", props=["C17", "C14", "C09"], auto_props=["C09", "C17"], est_s=120, timeout=1800, mem_gb=8, replay="model",
  desc="write-then-parse for twelve concrete names key generation accepts (incl. '=', '#', '[Key]', field keywords, inner blanks): each parses back to itself and is found by get_key",
  funcs=["keyring::Keyring::new", "keyring::Keyring::parse_config", "keyring::Keyring::add_key", "keyring::Keyring::get_key", "keyring::Keyring::valid_key_name"], bounds="twelve concrete one-section texts (concrete inputs: the parser is executed by the model checker, not solved for)", env=KR_ENV[2:3] + ["E-STR (see c17_shapes)"], outside="all other names (the solver-chosen variant c17_name_roundtrip is thorough-tier)")
H(name="c17_name_roundtrip_tab", crate="kestrel-cli", mod="keyring::verif_keyring", props=["C17"], est_s=20, timeout=1800, mem_gb=8, replay="model",
  desc="KNOWN FINDING F4: the same round trip for the concrete name a<TAB>b (expected to fail: the parser deletes every TAB)", funcs=["keyring::Keyring::parse_config"], bounds="one concrete text", env=KR_ENV[2:3] + ["E-STR: str::trim, String::retain, <Lines as Iterator>::next, str::split_once(char) replaced by byte-level models exact for ASCII text (std's char-iterator implementations cost ~3 minutes of symbolic execution per input line); guarded by estr_selftest"], outside="")
H(name="c17_sections", tier="thorough", optional=True, crate="kestrel-cli", mod="keyring::verif_keyring", props=["C17"], est_s=3000, timeout=2400, mem_gb=16, replay="model",
  desc="Keyring::new on two sections with symbolic one-byte names and symbolic key choice: accepted iff names differ and keys differ; entries in order",
  funcs=["keyring::Keyring::new", "keyring::Keyring::parse_config", "keyring::Keyring::add_key"], bounds="names in a..c x a..c, same/different public key", env=KR_ENV[2:3] + ["E-STR: str::trim, String::retain, <Lines as Iterator>::next, str::split_once(char) replaced by byte-level models exact for ASCII text (std's char-iterator implementations cost ~3 minutes of symbolic execution per input line); guarded by estr_selftest"], outside=PARSER_OUT)
H(name="c17_shapes", crate="kestrel-cli", mod="keyring::verif_keyring", props=["C17", "C09"], auto_props=["C09", "C17"], est_s=200, timeout=1800, mem_gb=8, replay="model",
  desc="Keyring::new on sixteen concrete section shapes (two appended generations, incomplete last section, CRLF, indentation/TABs, duplicate name, duplicate key, empty first/last section, field outside section, missing field, field twice, comments/blank/no final newline, junk, malformed private key, empty file): accepted iff the documented rule says so; entries = sections; never a panic",
  funcs=["keyring::Keyring::new", "keyring::Keyring::parse_config", "keyring::Keyring::add_key"], bounds="sixteen concrete texts of <= 110 bytes, executed one after the other (concrete cases, not solver-chosen)", env=KR_ENV[2:3] + ["E-STR: str::trim, String::retain, <Lines as Iterator>::next, str::split_once(char) replaced by byte-level models exact for ASCII text (std's char-iterator implementations cost ~3 minutes of symbolic execution per input line); guarded by estr_selftest"], outside=PARSER_OUT)

A_AEAD = "ChaCha20-Poly1305 is modelled as an ideal AEAD (opens iff exactly what was sealed); real forgery probability is outside the claim"
A_TB = "orion/ct-codecs/getopts/std implement their documented contracts (trusted base; Cargo.lock pins them)"
A_KANI = "Kani/CBMC translate and bit-blast the compiled MIR correctly; unwinding assertions on; bounds as listed per harness"

PROPERTIES = {
 "C01": {"claim": "Round trip decided modularly within the bounds: (1) encrypt_chunks output == documented record layout of the plaintext under the read partition (H-ENC, every plaintext/partition/partial write in bound); (2) decrypt_chunks turns EVERY stream of that layout, with any legal chunking, into exactly the plaintext (dec_model_*); (3) key_encrypt/key_decrypt wire header, file-key derivation and chunk loop identically (hdr_*); (4) Noise X writer/reader agree and return the payload key and the sender's static key (noise_x_lockstep). (1)+(2)+(3)+(4) compose to decrypt(encrypt(P)) = P and sender reported, for every interpretation of the primitives.",
         "outside": "chunk size 65536 itself and files of more than 5 chunks (the loops are uniform in chunk size and count: argued, not decided); 2^64-chunk counter overflow; the primitives (C19)", "assumptions": [A_AEAD, A_TB, A_KANI]},
 "C02": {"claim": "pass_encrypt/pass_decrypt: header = magic||salt, key = scrypt(password, salt, 32768, 8, 1, 32) on both sides with the password bytes unchanged (0..4 arbitrary bytes incl. empty/non-ASCII), aad = magic on both sides; framing round trip as C01 with that aad; under any other key every byte stream fails on the first chunk with zero writes/flushes (dec_wrong_key_cs2).",
         "outside": "that scrypt is injective/collision-free (cryptographic assumption E-KDF); password lengths > 4 (never inspected)", "assumptions": [A_AEAD, "E-KDF: different (password, salt) => different key", A_TB, A_KANI]},
 "C03": {"claim": "For a COMPLETELY UNCONSTRAINED ciphertext stream (any bytes, any length within bound) against an authentic file held by the ideal AEAD: Ok => every chunk authenticated in original order up to the final-flagged one, output == complete plaintext, stream ended right after it, consumed length == authentic length. Subsumes flips, truncation at every offset, extension, reorder, duplication, dropping, last-flag toggling within the bound. Header: wrong magic / truncated header / failed handshake => Err before anything is written.",
         "outside": "real forgery probability; splicing header fields between two authentic files at the Noise level (C05 splice harness not built: see DESIGN); files > 4 chunks", "assumptions": [A_AEAD, A_TB, A_KANI]},
 "C04": {"claim": "Inside every write call of the plaintext sink (checked by the sink itself): the bytes are exactly the plaintext of the chunk that was just authenticated, whole, in order; nothing is written before a chunk authenticates, nothing after a sink failure; Ok only after the final-flagged chunk authenticated and the stream ended; key_decrypt/pass_decrypt write/flush nothing before the chunk loop; OnDemandFile creates the file only at the first write/flush.",
         "outside": "as C03", "assumptions": [A_AEAD, A_TB, A_KANI]},
 "C05": {"claim": "Noise X conformance of both directions (token sequence e, es, s, ss; pre-message MixHash(recipient static); h as AD; nonce reset) for every interpretation of the primitives; a refused DH (all-zero result) at es or ss aborts with DhError and key_encrypt then writes/flushes/reads NOTHING; x25519 wrapper reports orion's refusal; key_decrypt returns the key the handshake authenticated and the CLI looks the sender up by exactly that key; decryption uses the named entry's unlocked private key.",
         "outside": "the two-handshake splice harness of the design (fields of different files / claimed-vs-used sender key) was not built: rejection there rests on the AD=h chaining shown by the lockstep harness plus AEAD ideality, argued not decided; which points orion refuses; Dolev-Yao attackers computing new terms", "assumptions": [A_AEAD, "X25519(a, pub b) = X25519(b, pub a)", A_TB, A_KANI]},
 "C06": {"claim": "Byte-for-byte lockstep with an executable transcription of docs/file-format.txt + Noise spec + RFC 7914: chunk records (BE64 counter, BE32 flag, BE32 length, ct, tag), AAD = [magic]||flag||len, nonce = chunk index = 00000000||LE64 for all 2^64 counters; headers 65676B10||handshake(128) and 65676B20||salt; file key = HKDF(empty, payload key, handshake hash, 32); Noise message bytes and hash; hkdf_noise == Noise HKDF; constants; every format-conforming stream with any legal chunking and any counter-field value decrypts.",
         "outside": "golden files data.txt.ktl / pdata.txt.ktl and 'earlier 1.x releases': need real X25519/scrypt(N=32768) executed, not encodable; the repo's smoke tests decrypt them concretely. orion == RFCs.", "assumptions": [A_AEAD, A_TB, A_KANI]},
 "C07": {"claim": "Data flow of every CSPRNG draw, by lockstep: key_encrypt(None,None,None): payload key IS one 32-byte draw; the CLI passes None/None/None; PrivateKey::generate IS one draw; gen_key: private key = draw 1, salt = draw 2 (distinct draws), pass_encrypt / change_pass salt = one fresh draw each, used for nothing else; within a file chunk i is sealed exactly once under nonce i (seal log).",
         "outside": "quality of getrandom; the ephemeral-key draw inside write_message is covered by reading PrivateKey::generate (c20_private_key_generate) but not by a dedicated lockstep harness; histories longer than one operation rest on the absence of mutable statics (by inspection)", "assumptions": ["E-RNG: draws are pairwise distinct", A_TB, A_KANI]},
 "C08": {"claim": "Every byte written by the encryptor is accounted for: magic, then the Noise message (e in clear, two AEAD outputs) or the salt, then per chunk BE64(i), flag, length (as authenticated) and AEAD output; nothing else, in particular no key or name; length = 132 (36) + 32 per chunk + |P| for all inputs in bound; the Noise message is a function of (e, AEAD outputs) only.",
         "outside": "that ChaCha20-Poly1305 output leaks nothing (IND-CPA); the two-run non-interference formulation of the design is replaced by the positional accounting above", "assumptions": [A_AEAD, A_TB, A_KANI]},
 "C09": {"claim": "Kani's automatic checks (panic, overflow, index, unwrap) on every untrusted-input surface with unconstrained bytes: chunk streams (any content/length), key-file and password-file headers (0..140 / 0..60 bytes), Noise messages (0..140 bytes), AEAD inputs (0..24 bytes incl. < 16), locked-key and public-key strings of any decoded length, keyring section shapes, slice_args; reads and AEAD inputs <= chunk+16 and scrypt cost parameters constant whatever the header says.",
         "outside": "argument vectors through getopts and the real exit status 101-vs-1; arbitrary keyring texts (parser only on bounded shapes); hangs beyond the unwinding bounds", "assumptions": [A_TB, A_KANI]},
 "C10": {"claim": "One fault (Interrupted/WouldBlock/BrokenPipe/Other or a zero-length write) at a solver-chosen read/write/flush call of encrypt_chunks/decrypt_chunks/key_encrypt: never a panic; read side => IORead, sink side => IOWrite; Ok only without fault or after an Interrupted call that std retries; what has been written is a prefix of the fault-free output (checked against the model online); partial writes (1..8 bytes per call) and short reads through std's real write_all/read_exact give the same bytes.",
         "outside": "two or more faults per run; short-I/O harnesses on one chunk only (write_all/read_exact are std code)", "assumptions": [A_AEAD, A_TB, A_KANI]},
 "C11": {"claim": "Streaming within bound: at every source read the input consumed beyond what has been completely written is <= 2 chunks (encrypt) / 2 records (decrypt), for files of up to 4-5 chunks; every read request and AEAD input <= chunk+16.",
         "outside": "GiB inputs themselves and peak-heap constancy (the counting-allocator harness of the design was not built); independence of n beyond the bound is by the loop's shape", "assumptions": [A_AEAD, A_KANI]},
 "C12": {"claim": "Function level: each command returns Ok iff every pre-check passed and the library call returned Ok (never swallowed, never manufactured), for every combination of prior output-path state, keyring state, prompt/unlock/checksum outcome and library outcome; main calls exit(1) iff try_main failed; sender naming by exact encoded key; the password commands behave the same with stdin in place of the input file (terminal refused, library called whenever every pre-check passes; stdout in place of -o - nothing created on disk, every library write reaches stdout - is a thorough-tier attempt: it ran out of memory at 36 GB); the keyring is opened the same way from -k and from KESTREL_KEYRING; OnDemandFile flush creates the file (empty plaintext still produces the output file).",
         "outside": "the real process exit code, getopts long/short/alias tables, OS pipe-vs-file semantics, message texts: not encodable here (E-CUT, E-OS); stdin/stdout wiring of the key-mode commands", "assumptions": [A_TB, A_KANI]},
 "C13": {"claim": "For encrypt, decrypt, password encrypt/decrypt, key generate: if the command fails before the library call, or the library fails before its first write, the output path is untouched (exists/length/content, no create); if the library wrote k bytes then failed (any error kind), the path holds exactly those bytes and Err is returned; no command removes or renames the output path; library side: nothing written/flushed before handshake success / first chunk verification.",
         "outside": "as C12", "assumptions": [A_TB, A_KANI]},
 "C14": {"claim": "gen_key(Some(path)) from an ARBITRARY prior state of the path (absent | any 0..4 bytes): on success the earlier contents are a byte prefix of the new contents, an existing file is never re-created/truncated, a new one is created once, the result is flushed; one inductive step from an arbitrary state covers every history. A section appended to a file whose last line is unterminated starts on a new line. The appended section parses back (c17_names_concrete, c17_shapes: two appended generations).",
         "outside": "content of the appended text beyond 'one [Key] section after a newline' (formatting is cut); passwords (C15)", "assumptions": [A_TB, A_KANI]},
 "C15": {"claim": "lock/unlock algebra with scrypt as an injective uninterpreted function, ideal AEAD, base64 as a bijection: documented 84-byte layout and parameters; unlock(lock(sk,pw),pw) = sk; other passwords fail; ANY single-byte change (any xor) fails (version => format error, salt => other key, rest => AEAD); other decoded lengths rejected; IETF wrappers forward key/nonce/aad unchanged.",
         "outside": "interoperability with other implementations reduces to the layout equation + orion/ct-codecs conformance", "assumptions": [A_AEAD, "E-KDF injective", "E-B64 bijection", A_TB, A_KANI]},
 "C16": {"claim": "One inductive step from an arbitrary (key, blob, passwords) state: change_pass unlocks with the OLD password, re-locks exactly THAT key under the NEW password with a FRESH CSPRNG salt (also when old == new); extract_pub encodes the public key derived from exactly the unlocked key; gen_key writes the same expression; with C15 this gives the property for every history.",
         "outside": "text of printed lines (formatting cut: 'raw private key never printed' is argument-level only)", "assumptions": [A_TB, A_KANI]},
 "C17": {"claim": "Checksummed public keys (usable iff last 4 bytes = SHA256(first 32)[..4]); lookups by name/key; twelve concrete names key generation accepts (with '=', '#', '[Key]', keywords, inner blanks) parse back exactly and are found; sixteen concrete file shapes accepted/rejected per the documented rule with entries in order; no panic. Thorough tier (attempts under a cap): every ASCII name of 1..3 bytes; all files of 4 / 6 lines over ten line tokens against a token-level oracle. Known finding F4 (TAB in name) reported as KNOWN-FINDING.",
         "outside": "non-ASCII text (E-STR models are exact for ASCII only); solver-chosen file content in the quick tier (every byte decides control flow: DESIGN 7.9)", "assumptions": ["E-STR: str::lines/trim/retain/split_once behave as std documents (byte-level models for ASCII text, self-tested by estr_selftest)", "E-B64 bijection", A_TB, A_KANI]},
 "C18": {"claim": "Modular equivalence with RFC 7914: Salsa20/8 core for ALL inputs; BlockMix (r=1,2,3), ROMix (N=2,4; r=1), envelope (p=1,2) each against the RFC pseudo-code with the level below as an arbitrary function; public wrapper and C ABI forward arguments in order and write exactly dk_len bytes.",
         "outside": "r > 3, N > 4, p > 2 (loops uniform); PBKDF2-HMAC-SHA256; comparison with OpenSSL", "assumptions": [A_TB, A_KANI]},
 "C19": {"claim": "Wrapper-level conformance: each exported wrapper hands exactly its arguments to the orion primitive and returns exactly its result, incl. error mapping; Noise nonce = 00000000||LE64(counter) for ALL 2^64 counters; decrypt of < 16 bytes is Err (F1 fixed).",
         "outside": "that orion == RFC 8439/7748/5869/2104/FIPS 180-4; forgery resistance, DH symmetry, base-point multiplication: mathematics of the primitive, deliberately not attempted with a bit-blasting solver", "assumptions": [A_TB, A_KANI]},
 "C20": {"claim": "For all 32-byte contents: PrivateKey (from bytes, generated, cloned; either drop order) and Zeroizing<Vec<u8>> buffers are all-zero at the moment their block is released (deallocator replaced by an inspector); PayloadKey and its clone read back as zero after drop. Built against the REAL zeroize crate.",
         "outside": "stack copies left by moves; concurrent drops", "assumptions": [A_TB, A_KANI]},
}
