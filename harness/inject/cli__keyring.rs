// Injected (cfg(kani) only) at the end of src/cli/src/keyring.rs: child module of `keyring`, sees the private
// tuple fields of EncodedPk/EncodedSk, Keyring.keys, parse_config, add_key.
//
// Environment: E-KDF (scrypt as an injective uninterpreted function), ideal AEAD on the IETF entry points,
// E-B64 (base64 as a bijection between byte strings and opaque tokens), SHA-256 uninterpreted.

#[allow(dead_code, static_mut_refs, unused_imports, unused_variables, unused_mut)]
pub(crate) mod verif_keyring {
    use super::*;

    // constructors for the command-level harnesses (commands.rs cannot reach the private fields)
    pub fn mk_sk(s: &str) -> EncodedSk { EncodedSk(String::from(s)) }
    pub fn mk_pk(s: &str) -> EncodedPk { EncodedPk(String::from(s)) }
    pub fn mk_keyring(keys: Vec<Key>) -> Keyring { Keyring { keys } }
    pub fn keys_of(k: &Keyring) -> &Vec<Key> { &k.keys }

    fn eq(a: &[u8], b: &[u8], n: usize) -> bool {
        let mut ok = a.len() >= n && b.len() >= n;
        let mut j = 0;
        while j < n { if ok && a[j] != b[j] { ok = false; } j += 1; }
        ok
    }

    // ---------------------------------------------------------------- E-STR
    // Byte-level models of the std string helpers the parser is built from, exact for ASCII text (the harness texts are
    // ASCII; a non-ASCII byte sets STR_LIMIT => the run is inconclusive, never a verdict). std's own implementations walk
    // `char` iterators with UTF-8 decoding, Unicode White_Space tables and the two-way/memchr searchers, which cost ~15
    // minutes of symbolic execution per input line; these are what the standard library documents them to compute.
    pub static mut STR_LIMIT: bool = false;
    pub fn str_ws(b: u8) -> bool { b == b' ' || (b >= 9 && b <= 13) }
    fn ascii_only(b: &[u8]) { let mut i = 0; while i < b.len() { if b[i] >= 0x80 { unsafe { STR_LIMIT = true; } } i += 1; } }
    /// str::trim: strip leading and trailing White_Space (ASCII: 0x09..=0x0D, 0x20)
    pub fn trim_model(s: &str) -> &str {
        let b = s.as_bytes();
        ascii_only(b);
        let mut i = 0;
        let mut j = b.len();
        while i < j && str_ws(b[i]) { i += 1; }
        while j > i && str_ws(b[j - 1]) { j -= 1; }
        unsafe { core::str::from_utf8_unchecked(&b[i..j]) }
    }
    /// String::retain: keep exactly the chars for which f is true, in order
    pub fn retain_model<F: FnMut(char) -> bool>(s: &mut String, mut f: F) {
        let v = unsafe { s.as_mut_vec() };
        let mut w = 0;
        let mut r = 0;
        while r < v.len() {
            if v[r] >= 0x80 { unsafe { STR_LIMIT = true; } }
            if f(v[r] as char) { v[w] = v[r]; w += 1; }
            r += 1;
        }
        v.truncate(w);
    }
    /// str::lines / Lines::next: lines end at "\n" or "\r\n" (the terminator is not part of the line); a final line
    /// needs no terminator; an empty final line is not reported. The iterator object is std's opaque `Lines`; since both
    /// its constructor and its `next` are replaced, its bytes hold this model's own cursor.
    /// (The cursor lives in a static, not inside the `Lines` object: type-punned stores into the opaque iterator defeat the
    /// model checker's constant propagation. The parser has one `Lines` alive at a time; a second `lines()` call while one
    /// is in use would be flagged through LINES_LIVE.)
    pub struct LinesState { ptr: *const u8, len: usize, pos: usize }
    pub static mut LINES: LinesState = LinesState { ptr: core::ptr::null(), len: 0, pos: 0 };
    pub static mut LINES_LIVE: bool = false;
    /// The real (cheap) constructor `str::lines` is kept; only `next` is replaced. The text is obtained from the untouched
    /// real iterator through `Lines::remainder()` (which, as the real iterator is never advanced, is always the whole text);
    /// the cursor is this model's own.
    pub fn lines_next_model<'a>(l: &mut core::str::Lines<'a>) -> Option<&'a str> where 'a: 'a {  // ('a: 'a makes the lifetime early-bound, like the impl-level lifetime of the original)
        let whole: &'a str = match l.remainder() { Some(w) => w, None => "" };
        let b: &'a [u8] = whole.as_bytes();
        let st = unsafe { &mut LINES };
        if !unsafe { LINES_LIVE } || st.ptr != b.as_ptr() || st.len != b.len() {
            // first call on this iterator
            unsafe { LINES_LIVE = true; }
            st.ptr = b.as_ptr(); st.len = b.len(); st.pos = 0;
        }
        if st.pos >= st.len { unsafe { LINES_LIVE = false; } return None; }
        let start = st.pos;
        let mut k = start;
        while k < b.len() && b[k] != b'\n' { k += 1; }
        let mut end = k;
        if k < b.len() { st.pos = k + 1; if end > start && b[end - 1] == b'\r' { end -= 1; } } else { st.pos = b.len(); }
        Some(unsafe { core::str::from_utf8_unchecked(&b[start..end]) })
    }
    /// str::split_once(char): split at the first occurrence of an ASCII delimiter (the parser only ever passes '=')
    pub fn split_once_model<'a, P: core::str::pattern::Pattern>(s: &'a str, delimiter: P) -> Option<(&'a str, &'a str)> {
        if core::mem::size_of::<P>() != 4 { unsafe { STR_LIMIT = true; } return None; }
        let c: u32 = unsafe { core::mem::transmute_copy(&delimiter) };
        core::mem::forget(delimiter);
        if c >= 0x80 { unsafe { STR_LIMIT = true; } return None; }
        let b = s.as_bytes();
        let mut k = 0;
        while k < b.len() && b[k] != c as u8 { k += 1; }
        if k == b.len() { return None; }
        Some(unsafe { (core::str::from_utf8_unchecked(&b[..k]), core::str::from_utf8_unchecked(&b[k + 1..])) })
    }
    macro_rules! str_stubs { ($f:item) => {
        #[kani::proof]
        #[kani::stub(core::fmt::write, fmtwrite_cut)]
        #[kani::stub(alloc::fmt::format, format_cut)]
        #[kani::stub(str::trim, trim_model)]
        #[kani::stub(std::string::String::retain, retain_model)]
        #[kani::stub(<core::str::Lines as core::iter::Iterator>::next, lines_next_model)]
        #[kani::stub(str::split_once, split_once_model)]
        $f
    } }

    // ---------------------------------------------------------------- E-B64
    // Base64 is replaced as a crate (harness/env/ct-codecs-kani): under cfg(kani) encode/decode are a
    // record/replay bijection between byte strings and opaque tokens; its tables are public statics.
    pub use ct_codecs::kani_model::M as B64;  // (one static with a unique initialiser: see the note in kani_model.rs)

    // ---------------------------------------------------------------- E-KDF (injective, deterministic)
    pub static mut KDF_PW: [[u8; 4]; 3] = [[0; 4]; 3];
    pub static mut KDF_LONG: [[u8; 132]; 3] = [[0; 132]; 3]; // passwords of 5..132 bytes, in full (the long-password harness)
    pub static mut KDF_PWLEN: [usize; 3] = [0; 3];
    pub static mut KDF_SALT: [[u8; 32]; 3] = [[0; 32]; 3];
    pub static mut KDF_OUT: [[u8; 32]; 3] = [[0; 32]; 3];
    pub static mut KDF_N: crate::Z8 = crate::Z8(0);
    pub static mut KDF_PARAMS_OK: bool = true;
    pub fn scrypt_model(password: &[u8], salt: &[u8], n: usize, r: usize, p: usize, dk_len: usize) -> Vec<u8> {
        unsafe {
            if !(n == 32768 && r == 8 && p == 1 && dk_len == 32 && salt.len() == 32) { KDF_PARAMS_OK = false; }
            assert!(password.len() <= 132, "[LIMIT] harness bound: passwords of at most 132 bytes");
            // (passwords longer than 4 bytes - used with concrete lengths only - are recorded in full, so that a caller
            // that hands over a truncated or otherwise altered password is seen as using a DIFFERENT password)
            let long = password.len() > 4;
            let pl = if long { 4 } else { password.len() };
            let mut i = 0;
            while i < KDF_N.0 {
                if KDF_PWLEN[i] == password.len() && eq(password, &KDF_PW[i], pl) && (!long || eq(password, &KDF_LONG[i], password.len())) && eq(salt, &KDF_SALT[i], 32) { return KDF_OUT[i].to_vec(); }
                i += 1;
            }
            assert!(KDF_N.0 < 3, "[LIMIT] harness bound: three distinct scrypt inputs");
            let k = KDF_N.0;
            // (guarded per-byte copy: a symbolic-length memcpy into the table is mis-modelled by the back end)
            let mut j = 0;
            while j < 4 { if j < pl { KDF_PW[k][j] = password[j]; } j += 1; }
            KDF_PWLEN[k] = password.len();
            if long { let mut j = 0; while j < 132 { if j < password.len() { KDF_LONG[k][j] = password[j]; } j += 1; } }
            KDF_SALT[k].copy_from_slice(salt);
            let o: [u8; 32] = kani::any();
            // injective: a new (password, salt) never yields an earlier key
            let mut i = 0;
            while i < KDF_N.0 { kani::assume(o != KDF_OUT[i]); i += 1; }
            KDF_OUT[k] = o;
            KDF_N.0 += 1;
            o.to_vec()
        }
    }

    // ---------------------------------------------------------------- ideal AEAD on the IETF entry points
    pub static mut AE: (usize, [u8; 32], [u8; 12], [u8; 32], usize, [u8; 4], usize, [u8; 48]) = (0, [0; 32], [0; 12], [0; 32], 0, [0; 4], 0, [0; 48]); // n, key, nonce, pt, ptlen, aad, aadlen, ct
    pub fn seal_model(key: &[u8], nonce: &[u8], pt: &[u8], aad: &[u8]) -> Vec<u8> {
        unsafe {
            assert!(AE.0 == 0, "[C15] locking seals exactly once");
            assert!(key.len() == 32 && nonce.len() == 12, "[C19] key 32 bytes, nonce 12 bytes");
            AE.0 = 1;
            AE.1.copy_from_slice(key);
            AE.2.copy_from_slice(nonce);
            AE.4 = pt.len();
            if pt.len() == 32 { AE.3.copy_from_slice(pt); }
            AE.6 = aad.len();
            if aad.len() == 4 { AE.5.copy_from_slice(aad); }
            let c: [u8; 48] = kani::any();
            AE.7 = c;
            c.to_vec()
        }
    }
    pub fn open_model(key: &[u8], nonce: &[u8], ct: &[u8], aad: &[u8]) -> Result<Vec<u8>, kestrel_crypto::errors::ChaPolyDecryptError> {
        unsafe {
            if AE.0 == 1 && key.len() == 32 && eq(key, &AE.1, 32) && nonce.len() == 12 && eq(nonce, &AE.2, 12) && aad.len() == AE.6 && eq(aad, &AE.5, AE.6)
                && ct.len() == 48 && eq(ct, &AE.7, 48) {
                return Ok(AE.3.to_vec());
            }
            Err(kestrel_crypto::errors::ChaPolyDecryptError)
        }
    }

    /// C15: format equation, round trip, other passwords, any one-byte change, other decoded lengths.
    #[kani::proof]
    #[kani::stub(kestrel_crypto::scrypt::scrypt, scrypt_model)]
    #[kani::stub(kestrel_crypto::chapoly_encrypt_ietf, seal_model)]
    #[kani::stub(kestrel_crypto::chapoly_decrypt_ietf, open_model)]
    #[kani::unwind(120)]
    pub fn c15_lock_unlock() {
        let skb: [u8; 32] = kani::any();
        let salt: [u8; 32] = kani::any();
        let pwb: [u8; 4] = kani::any();
        let pl: usize = kani::any();
        kani::assume(pl <= 4);
        let sk = PrivateKey::try_from(&skb[..]).unwrap();
        let locked = Keyring::lock_private_key(&sk, &pwb[..pl], salt);
        unsafe {
            assert!(KDF_PARAMS_OK && KDF_N.0 == 1, "[C15] the locking key is scrypt(password, salt, 32768, 8, 1) -> 32 bytes");
            assert!(KDF_PWLEN[0] == pl, "[C15] scrypt gets the password (length)");
            assert!(eq(&KDF_PW[0], &pwb, pl), "[C15] scrypt gets the password (bytes)");
            assert!(eq(&KDF_SALT[0], &salt, 32), "[C15] scrypt gets the salt");
            assert!(AE.0 == 1 && AE.1 == KDF_OUT[0] && AE.2 == [0u8; 12] && AE.4 == 32 && AE.3 == skb && AE.6 == 4 && AE.5 == [0x65, 0x67, 0x6b, 0x30],
                    "[C15] sealed = ChaCha20-Poly1305(key = scrypt output, nonce = 0^12, plaintext = the 32-byte private key, aad = 65 67 6B 30)");
            assert!(B64.b64_n == 1 && B64.b64_len[0] == 84, "[C15] the locked key is the base64 of 84 bytes");
            assert!(B64.b64_bytes[0][0] == 0x65 && B64.b64_bytes[0][1] == 0x67 && B64.b64_bytes[0][2] == 0x6b && B64.b64_bytes[0][3] == 0x30, "[C15] blob starts with the version 65 67 6B 30");
            assert!(eq(&B64.b64_bytes[0][4..], &salt, 32), "[C15] then the 32-byte salt");
            assert!(eq(&B64.b64_bytes[0][36..], &AE.7, 48), "[C15] then ciphertext and tag (48 bytes)");
        }
        // parses back through the public constructor
        let reparsed = EncodedSk::try_from(locked.as_str());
        assert!(reparsed.is_ok(), "[C15,C17] a locked key the tool writes is accepted by the keyring parser's check");
        // same password
        let un = Keyring::unlock_private_key(&locked, &pwb[..pl]);
        assert!(un.is_ok() && un.as_ref().unwrap().as_bytes() == &skb[..], "[C15,C16] unlocking with the same password returns exactly the original key");
        // any other password
        let pwb2: [u8; 4] = kani::any();
        let pl2: usize = kani::any();
        kani::assume(pl2 <= 4);
        kani::assume(pl2 != pl || !eq(&pwb2, &pwb, pl));
        let un2 = Keyring::unlock_private_key(&locked, &pwb2[..pl2]);
        assert!(matches!(un2, Err(KeyringError::PrivateKeyDecrypt)), "[C15,C16] any other password fails to unlock");
        assert!(unsafe { KDF_PARAMS_OK }, "[C15] unlocking uses the same scrypt parameters");
        kani::cover!(pl == 0 && pl2 == 1);
        kani::cover!(pl == 4 && pl2 == 4);
        core::mem::forget(sk); core::mem::forget(un); core::mem::forget(un2);
        env_guard();
    }

    /// C15/C16: long passwords (132 bytes, longer than any block or name limit) count in full: two passwords that
    /// differ in ONE byte anywhere (in particular beyond byte 64 or 128) are different passwords.
    #[kani::proof]
    #[kani::stub(kestrel_crypto::scrypt::scrypt, scrypt_model)]
    #[kani::stub(kestrel_crypto::chapoly_encrypt_ietf, seal_model)]
    #[kani::stub(kestrel_crypto::chapoly_decrypt_ietf, open_model)]
    #[kani::unwind(140)]
    pub fn c15_long_passwords() {
        let skb: [u8; 32] = kani::any();
        let salt: [u8; 32] = kani::any();
        let pw1: [u8; 132] = kani::any();
        let k: usize = kani::any();
        let d: u8 = kani::any();
        kani::assume(k < 132 && d != 0);
        let mut pw2 = pw1;
        pw2[k] ^= d;
        let sk = PrivateKey::try_from(&skb[..]).unwrap();
        let locked = Keyring::lock_private_key(&sk, &pw1, salt);
        let un = Keyring::unlock_private_key(&locked, &pw1);
        assert!(un.is_ok() && un.as_ref().unwrap().as_bytes() == &skb[..], "[C15,C16] a 132-byte password unlocks what it locked");
        let un2 = Keyring::unlock_private_key(&locked, &pw2);
        assert!(un2.is_err(), "[C15,C16] a long password that differs in any single byte (also beyond byte 64 / 128) does not unlock");
        kani::cover!(k == 131);
        kani::cover!(k == 0);
        core::mem::forget(sk); core::mem::forget(un); core::mem::forget(un2);
        env_guard();
    }

    /// C15: a change to any one of the 84 bytes (any non-zero xor), and blobs of any other length.
    #[kani::proof]
    #[kani::stub(kestrel_crypto::scrypt::scrypt, scrypt_model)]
    #[kani::stub(kestrel_crypto::chapoly_encrypt_ietf, seal_model)]
    #[kani::stub(kestrel_crypto::chapoly_decrypt_ietf, open_model)]
    #[kani::unwind(120)]
    pub fn c15_tamper() {
        let skb: [u8; 32] = kani::any();
        let salt: [u8; 32] = kani::any();
        let pw = [0x70u8, 0x77];
        let sk = PrivateKey::try_from(&skb[..]).unwrap();
        let locked = Keyring::lock_private_key(&sk, &pw, salt);
        // the attacker's string decodes to the authentic 84 bytes with byte k changed, or to some other length
        let k: usize = kani::any();
        let d: u8 = kani::any();
        kani::assume(k < 84 && d != 0);
        let other_len: bool = kani::any();
        unsafe {
            B64.att_bytes[..84].copy_from_slice(&B64.b64_bytes[0]);
            if other_len {
                let n: usize = kani::any();
                kani::assume(n <= 90 && n != 84);
                B64.att_len = n;
            } else {
                B64.att_bytes[k] ^= d;
                B64.att_len = 84;
            }
        }
        let s = "XXXXXXXXXXXXXXXXXXXXXXXXXXXXXXXXXXXXXXXXXXXXXXXXXXXXXXXXXXXXXXXXXXXXXXXXXXXXXXXXXXXXXXXXXXXXXXXXXXXXXXXXXXXXXXXXXXXXXXXXXXXX";
        let parsed = EncodedSk::try_from(s);
        if other_len {
            assert!(parsed.is_err(), "[C15,C09] a string that does not decode to exactly 84 bytes is not a locked key");
        } else {
            assert!(parsed.is_ok(), "[C15] 84 decoded bytes pass the length check");
            let un = Keyring::unlock_private_key(parsed.as_ref().unwrap(), &pw);
            assert!(un.is_err(), "[C15] a change to any one of the 84 bytes makes unlocking fail");
            if k < 4 { assert!(matches!(un, Err(KeyringError::PrivateKeyFormat)), "[C15] a changed version is reported as unsupported format"); }
            core::mem::forget(un);
        }
        kani::cover!(!other_len && k == 3 && d == 1);
        kani::cover!(!other_len && k == 4);
        kani::cover!(!other_len && k == 83);
        kani::cover!(other_len && unsafe { B64.att_len } == 0);
        core::mem::forget(sk);
        env_guard();
    }

    // ---------------------------------------------------------------- public keys: checksum
    pub static mut SHA_IN: [u8; 32] = [0; 32];
    pub static mut SHA_INLEN: crate::Z8 = crate::Z8(0);
    pub static mut SHA_OUT: [u8; 32] = [0; 32];
    pub static mut SHA_N: crate::Z8 = crate::Z8(0);
    pub fn sha_model(data: &[u8]) -> Vec<u8> {
        unsafe {
            // deterministic: the same input gives the same output
            if SHA_N.0 >= 1 && data.len() == SHA_INLEN.0 && eq(data, &SHA_IN, SHA_INLEN.0) { SHA_N.0 += 1; return SHA_OUT.to_vec(); }
            assert!(SHA_N.0 == 0 && data.len() == 32, "[C17] the checksum hashes exactly the 32 key bytes");
            SHA_IN.copy_from_slice(data);
            SHA_INLEN.0 = 32;
            let o: [u8; 32] = kani::any();
            SHA_OUT = o;
            SHA_N.0 = 1;
            o.to_vec()
        }
    }

    /// C17(3): encode = base64(pk || SHA256(pk)[..4]); decode(encode(pk)) = pk; a 36-byte blob is usable iff its last
    /// four bytes are SHA256(first 32)[..4]; other lengths are errors, never panics.
    #[kani::proof]
    #[kani::stub(kestrel_crypto::sha256, sha_model)]
    #[kani::unwind(60)]
    pub fn c17_public_key_checksum() {
        let pkb: [u8; 32] = kani::any();
        let which: u8 = kani::any();
        kani::assume(which <= 2);
        if which == 0 {
            let pk = PublicKey::try_from(&pkb[..]).unwrap();
            let enc = Keyring::encode_public_key(&pk);
            unsafe {
                assert!(B64.b64_n == 1 && B64.b64_len[0] == 36 && eq(&B64.b64_bytes[0], &pkb, 32), "[C17,C16] encoded public key = base64(32 key bytes || checksum)");
                assert!(SHA_IN == pkb && eq(&B64.b64_bytes[0][32..], &SHA_OUT, 4), "[C17] checksum = first 4 bytes of SHA-256(key)");
            }
            assert!(EncodedPk::try_from(enc.as_str()).is_ok(), "[C17] what the tool writes is accepted by the parser's check");
            let dec = Keyring::decode_public_key(&enc);
            assert!(dec.is_ok() && dec.as_ref().unwrap().as_bytes() == &pkb[..], "[C17] decode(encode(pk)) = pk");
        } else if which == 1 {
            // an arbitrary 36-byte blob
            let blob: [u8; 36] = kani::any();
            unsafe { B64.att_bytes[..36].copy_from_slice(&blob); B64.att_len = 36; }
            let e = EncodedPk::try_from("XXXXXXXXXXXXXXXXXXXXXXXXXXXXXXXXXXXXXXXXXXXXXXXX");
            assert!(e.is_ok(), "[C17] 36 decoded bytes pass the length check");
            let dec = Keyring::decode_public_key(e.as_ref().unwrap());
            let good = unsafe { eq(&blob[32..], &SHA_OUT, 4) && eq(&SHA_IN, &blob, 32) };
            assert!(dec.is_ok() == good, "[C17] a public key is usable iff its 4-byte checksum matches SHA-256 of its 32 key bytes");
            if let Ok(p) = &dec { assert!(p.as_bytes() == &blob[..32], "[C17] the decoded key is the first 32 bytes"); }
            kani::cover!(dec.is_ok());
            kani::cover!(dec.is_err());
        } else {
            // any other decoded length, or undecodable
            let n: usize = kani::any();
            kani::assume(n <= 40 && n != 36);
            unsafe { B64.att_len = n; B64.att_err = kani::any(); }
            let e = EncodedPk::try_from("XXXXXXXXXXXXXXXXXXXXXXXXXXXXXXXXXXXXXXXXXXXXXXXX");
            assert!(e.is_err(), "[C17,C09] a string that does not decode to exactly 36 bytes is not a public key");
        }
        env_guard();
    }

    // ---------------------------------------------------------------- lookups
    /// C12/C17: get_key / get_name_from_key return the entry with exactly that name / encoded key, first match, else None.
    #[kani::proof]
    #[kani::unwind(6)]
    pub fn c17_lookup() {
        let names = ["a", "b", "c"];
        let pks = ["P0", "P1", "P2"];
        let n: usize = kani::any();
        kani::assume(n <= 3);
        let mut keys = Vec::new();
        let mut i = 0;
        while i < n {
            keys.push(Key { name: String::from(names[i]), public_key: EncodedPk(String::from(pks[i])), private_key: None });
            i += 1;
        }
        let kr = Keyring { keys };
        let q: usize = kani::any();
        kani::assume(q < 4);
        let qpk = EncodedPk(String::from(if q == 0 { "P0" } else if q == 1 { "P1" } else if q == 2 { "P2" } else { "P9" }));
        let got = kr.get_name_from_key(&qpk);
        if q < n { assert!(got.as_deref() == Some(names[q]), "[C12,C17,C05] the sender is named by the entry whose encoded public key equals the authenticated key"); }
        else { assert!(got.is_none(), "[C12,C17] a key that is not in the keyring is reported as unknown"); }
        let qn = if q == 0 { "a" } else if q == 1 { "b" } else if q == 2 { "c" } else { "zz" };
        let k = kr.get_key(qn);
        if q < n { assert!(k.is_some() && k.unwrap().public_key.as_str() == pks[q], "[C17,C12] lookup by name returns that entry"); }
        else { assert!(k.is_none(), "[C17] unknown names are not found"); }
        // names are matched exactly: a name that differs only in case is a different (here: absent) key
        assert!(kr.get_key("A").is_none() && kr.get_key("B").is_none(), "[C17,C05,C12] lookup by name is exact (case-sensitive): a file is only ever addressed to / opened with the key of exactly the name given");
        kani::cover!(n == 3 && q == 2);
        kani::cover!(n == 0);
        core::mem::forget(kr); core::mem::forget(got);
        env_guard();
    }

    /// C17/C09: valid_key_name: 1..=128 bytes.
    #[kani::proof]
    #[kani::unwind(4)]
    pub fn c17_valid_key_name() {
        let buf = [b'x'; 130];
        let n: usize = kani::any();
        kani::assume(n <= 130);
        let s = unsafe { core::str::from_utf8_unchecked(&buf[..n]) };
        assert!(Keyring::valid_key_name(s) == (n >= 1 && n <= 128), "[C17] a key name is valid iff it has 1..=128 bytes");
        env_guard();
    }

    // ---------------------------------------------------------------- the parser
    // E-CUT: error-message formatting produces nothing (message text is not the subject)
    pub fn fmtwrite_cut(_o: &mut dyn core::fmt::Write, _a: core::fmt::Arguments<'_>) -> core::fmt::Result { Ok(()) }
    pub fn format_cut(_a: core::fmt::Arguments<'_>) -> String { String::from("F") }
    pub const PK_A: &str = "P"; // any non-token string decodes (E-B64 model) to the harness's 36 bytes
    pub const PK_B: &str = "Q";

    fn name_text(name: &[u8], n: usize) -> String {
        // the text serialize_key() writes for one key without a private key line
        let mut t = String::from("[Key]\nName=");
        t.push_str(unsafe { core::str::from_utf8_unchecked(&name[..n]) });
        t.push_str("\nPublicKey=");
        t.push_str(PK_A);
        t.push('\n');
        t
    }
    fn is_ws(b: u8) -> bool { b == b' ' || (b >= 9 && b <= 13) }
    /// Text on the stack with a concrete layout and (possibly) solver-chosen content: a `String` grown by `push`/`push_str`
    /// of symbolic chars or symbolic-length pieces has a symbolic length, which the back end handles badly.
    /// (CBMC propagates constants through arrays of at most 64 elements - its field-sensitivity limit; in a larger buffer
    /// even the literal bytes become symbolic and the whole parse with them. Texts up to 64 bytes use Txt<64>; the token
    /// files use Txt<112> together with `--max-field-sensitivity-array-size 128`.)
    pub struct Txt<const N: usize> { pub b: [u8; N], pub n: usize }
    impl<const N: usize> Txt<N> {
        pub fn new() -> Self { Txt { b: [b' '; N], n: 0 } }
        pub fn lit(&mut self, s: &[u8]) { let mut i = 0; while i < s.len() { self.b[self.n] = s[i]; self.n += 1; i += 1; } }
        pub fn byte(&mut self, c: u8) { self.b[self.n] = c; self.n += 1; }
        pub fn as_str(&self) -> &str { unsafe { core::str::from_utf8_unchecked(&self.b[..self.n]) } }
    }
    /// One accepted name of exactly `n` ASCII bytes (concrete n, solver-chosen bytes) through write-then-parse.
    fn name_roundtrip(n: usize) {
        unsafe { ct_codecs::kani_model::M.att_len = 36; }
        let name: [u8; 3] = kani::any();
        // names `key generate` accepts: one line of input, trimmed, non-empty (ASCII here); TAB is known finding F4
        let mut j = 0;
        while j < 3 {
            if j < n { kani::assume(name[j] != 0 && name[j] < 0x80 && name[j] != b'\n' && name[j] != b'\r' && name[j] != b'\t'); }
            j += 1;
        }
        kani::assume(!is_ws(name[0]) && !is_ws(name[n - 1]));
        // the text serialize_key() writes for one key without a private key line
        let mut t = Txt::<64>::new();
        t.lit(b"[Key]\nName = ");
        t.lit(&name[..n]);
        t.lit(b"\nPublicKey = P\n");
        let kr = Keyring::new(t.as_str());
        assert!(kr.is_ok(), "[C17,C14] a [Key] section as written by key generation is accepted");
        let kr = kr.unwrap();
        assert!(kr.keys.len() == 1, "[C17] one section gives one entry");
        assert!(kr.keys[0].name.as_bytes() == &name[..n], "[C17,C14] the name parses back to exactly the name that was written");
        assert!(kr.keys[0].public_key.as_str() == PK_A && kr.keys[0].private_key.is_none(), "[C17] the public key parses back to exactly what was written");
        assert!(kr.get_key(unsafe { core::str::from_utf8_unchecked(&name[..n]) }).is_some(), "[C17,C12] the key is found under the name that was written");
        core::mem::forget(kr);
    }
    str_stubs! {
    /// C17(2): names accepted by key generation (no TAB) round-trip through the parser: every ASCII name of 1..3 bytes that
    /// key generation accepts (trimmed, non-empty, one line; '=' '#' '[' and inner spaces included).
    #[kani::unwind(16)]
    pub fn c17_name_roundtrip() {
        name_roundtrip(1);
        name_roundtrip(2);
        name_roundtrip(3);
        assert!(!unsafe { STR_LIMIT }, "[LIMIT] E-STR models are exact for ASCII text only");
        env_guard();
    } }
    str_stubs! {
    /// C17(2), concrete-input variant for the quick tier (the parser's control flow depends on every byte, so solver-chosen
    /// names make every slice length symbolic - see DESIGN 7.9): twelve names key generation accepts, written in the format
    /// serialize_key() writes, parse back to themselves and are found by get_key.
    #[kani::unwind(24)]
    pub fn c17_names_concrete() {
        unsafe { ct_codecs::kani_model::M.att_len = 36; }
        let names: [&str; 12] = ["a", "ab", "a b", "a=b", "a = b", "=", "#a", "[Key]", "Name", "PublicKey = x", "a  b   c", "k1.host-x_2"];
        let mut i = 0;
        while i < 12 {
            let mut t = Txt::<64>::new();
            t.lit(b"[Key]\nName = ");
            t.lit(names[i].as_bytes());
            t.lit(b"\nPublicKey = P\n");
            let kr = Keyring::new(t.as_str());
            assert!(kr.is_ok(), "[C17,C14] a [Key] section as written by key generation is accepted");
            let kr = kr.unwrap();
            assert!(kr.keys.len() == 1 && kr.keys[0].name == names[i], "[C17,C14] the name parses back to exactly the name that was written");
            assert!(kr.keys[0].public_key.as_str() == PK_A && kr.keys[0].private_key.is_none(), "[C17] the public key parses back to exactly what was written");
            assert!(kr.get_key(names[i]).is_some(), "[C17,C12] the key is found under the name that was written");
            core::mem::forget(kr);
            i += 1;
        }
        assert!(!unsafe { STR_LIMIT }, "[LIMIT] E-STR models are exact for ASCII text only");
        env_guard();
    } }
    str_stubs! {
    /// Known finding F4: a name containing a TAB does not round-trip (the parser deletes every TAB). Fully concrete input.
    #[kani::unwind(16)]
    pub fn c17_name_roundtrip_tab() {
        unsafe { ct_codecs::kani_model::M.att_len = 36; }
        let name = *b"a\tb";
        let text = name_text(&name, 3);
        let kr = Keyring::new(&text);
        assert!(!unsafe { STR_LIMIT }, "[LIMIT] E-STR models are exact for ASCII text only");
        assert!(kr.is_ok() && kr.as_ref().unwrap().keys.len() == 1 && kr.as_ref().unwrap().keys[0].name.as_bytes() == &name[..],
                "[C17] KF-F4 a key name containing a TAB, as written by key generation, parses back to itself");
        core::mem::forget(kr);
        env_guard();
    } }

    str_stubs! {
    /// E-STR self-test: the models, called through the std names, on concrete texts with the results std documents.
    #[kani::unwind(14)]
    pub fn estr_selftest() {
        let text = String::from("a\nb \r\n\n\tc=d");
        let mut it = text.lines();
        assert!(it.next() == Some("a"));
        assert!(it.next() == Some("b "));
        assert!(it.next() == Some(""));
        let l = it.next();
        assert!(l == Some("\tc=d"));
        assert!(it.next().is_none());
        let mut c = l.unwrap().to_string();
        c.retain(|ch| ch != '\t');
        assert!(c == "c=d");
        let so = c.split_once('=');
        assert!(so == Some(("c", "d")));
        assert!("x".split_once('=').is_none());
        assert!("  x y \t".trim() == "x y");
        assert!("".trim() == "" && " ".trim() == "");
        let mut n = 0;
        for _l in "p\nq\n".lines() { n += 1; }
        assert!(n == 2);
        assert!(!unsafe { STR_LIMIT });
        env_guard();
    } }

    /// Called at the end of every CLI harness: Kani 0.68 may compile liballoc's constant `Cap::ZERO` to a read of ONE of the
    /// harness's zero-initialised 8-byte statics (upstream or local - whichever its allocation cache met first). If that
    /// static has been written, every later `Vec::new()` / `String::new()` has a phantom capacity. A phantom capacity
    /// cannot make a failing harness pass (every use of such a container is a reported pointer failure), but it can make
    /// a passing one fail; this guard turns that into an explicit `[LIMIT]` (=> inconclusive) instead of a puzzle.
    pub fn env_guard() {
        let v = Vec::<u8>::new();
        let k = Vec::<Key>::new();
        let s = String::new();
        assert!(v.capacity() == 0 && k.capacity() == 0 && s.capacity() == 0,
                "[LIMIT] environment: a standard-library constant is aliased with a harness static that was written (Kani 0.68 defect, DESIGN 7.9)");
    }
    /// Environment guard: Kani 0.68 conflates a constant with an upstream static of identical initial bytes (see
    /// harness/env/ct-codecs-kani/src/kani_model.rs). After the model's state has been written, fresh containers must still
    /// be empty with capacity 0 - if this fails, every verdict of the CLI harnesses is suspect.
    #[kani::proof]
    pub fn env_const_alias_guard() {
        unsafe { B64.att_len = 36; B64.b64_n = 1; B64.att_err = true; B64.decodes = 7; }
        let keys = Vec::<Key>::new();
        let v = Vec::<u8>::new();
        let s = String::new();
        assert!(keys.capacity() == 0 && keys.len() == 0);
        assert!(v.capacity() == 0 && s.capacity() == 0);
        assert!(core::mem::size_of::<usize>() == 8);
    }
    /// C17(1): structural acceptance, compared with the documented rule: every [Key] section has a Name and a PublicKey,
    /// fields appear once per section and only inside a section, names and public keys are unique, entries = sections
    /// in order. (a) two sections with SYMBOLIC one-byte names and symbolic choice of public keys: accepted iff names
    /// differ and keys differ; (b) ten concrete section shapes, run one after the other.
    str_stubs! {
    #[kani::unwind(32)]
    pub fn c17_sections() {
        unsafe { ct_codecs::kani_model::M.att_len = 36; }
        // (a)
        let (n1, n2): (u8, u8) = (kani::any(), kani::any());
        kani::assume(n1 >= b'a' && n1 <= b'c' && n2 >= b'a' && n2 <= b'c');
        let same_pk: bool = kani::any();
        let b1 = [n1];
        let b2 = [n2];
        let mut t = Txt::<64>::new();
        t.lit(b"[Key]\nName = "); t.byte(n1); t.lit(b"\nPublicKey=P\n\n[Key]\nName = "); t.byte(n2); t.lit(b"\nPublicKey="); t.byte(if same_pk { b'P' } else { b'Q' }); t.byte(b'\n');
        let text = t.as_str();
        let kr = Keyring::new(text);
        assert!(kr.is_ok() == (n1 != n2 && !same_pk), "[C17] a keyring is accepted iff no name and no public key occurs twice");
        if let Ok(k) = &kr {
            assert!(k.keys.len() == 2 && k.keys[0].name.as_bytes() == &b1[..] && k.keys[1].name.as_bytes() == &b2[..] && k.keys[1].public_key.as_str() == PK_B,
                    "[C17] entries are exactly the sections of the file, in order");
        }
        kani::cover!(kr.is_ok());
        kani::cover!(kr.is_err() && n1 != n2);
        assert!(!unsafe { STR_LIMIT }, "[LIMIT] E-STR models are exact for ASCII text only");
        core::mem::forget(kr);
        env_guard();
    } }

    /// C17(1b): ten concrete section shapes, run one after the other (concrete inputs: the parser is executed, not solved).
    str_stubs! {
    #[kani::unwind(18)]
    pub fn c17_shapes() {
        unsafe { ct_codecs::kani_model::M.att_len = 36; }
        let shapes: [(&str, bool, usize); 16] = [
            ("[Key]\n[Key]\nName = a\nPublicKey = P\n", false, 0), // empty first section
            ("[Key]\nName = a\nPublicKey = P\n[Key]\n", false, 0), // empty last section
            ("Name = a\n[Key]\nPublicKey = P\n", false, 0),       // field outside a section
            ("[Key]\nName = a\n", false, 0),                                                                   // no public key
            ("[Key]\nPublicKey = P\n", false, 0),                 // no name
            ("[Key]\nName = a\nName = b\nPublicKey = P\n", false, 0), // field twice
            ("# c\n\n[Key]\n# c\nName = a\n\nPublicKey = P", true, 1),  // comments, blanks, no final newline
            ("[Key]\nName = a\njunk\nPublicKey = P\n", false, 0),   // junk line
            ("[Key]\nPrivateKey = x\nName = a\nPublicKey = P\n", false, 0), // malformed private key
            ("", false, 0),                                                                                      // empty file
            ("[Key]\r\nName = a\r\nPublicKey = P\r\n", true, 1),   // CRLF line ends
            ("  [Key]  \n\tName\t=\ta \n  PublicKey=P", true, 1),  // indentation, TABs around tokens, trailing blanks
            ("[Key]\nName = a\nPublicKey = P\n[Key]\nName = a\nPublicKey = Q\n", false, 0), // same name twice
            ("[Key]\nName = a\nPublicKey = P\n[Key]\nName = b\nPublicKey = P\n", false, 0), // same public key twice
            ("[Key]\nName = a\nPublicKey = P\n\n[Key]\nName = b\nPublicKey = Q\n", true, 2),  // two key generations appended (C14)
            ("[Key]\nName = a\nPublicKey = P\n[Key]\nName = b\n", false, 0),                     // second section incomplete at end of file
        ];
        let mut i = 0;
        while i < 16 {
            let (t, accept, count) = shapes[i];
            let kr = Keyring::new(t);
            assert!(kr.is_ok() == accept, "[C17] a keyring is accepted iff every [Key] section is complete, fields are unique per section and inside a section");
            if let Ok(k) = &kr { assert!(k.keys.len() == count && k.keys[0].name == "a", "[C17] entries are exactly the sections of the file"); }
            core::mem::forget(kr);
            i += 1;
        }
        assert!(!unsafe { STR_LIMIT }, "[LIMIT] E-STR models are exact for ASCII text only");
        env_guard();
    } }
    // ------------------------------------------------------------------ C17(1): all token sequences up to a length bound
    // Every line of the text is one of NT tokens, padded with blanks to a common width (the parser trims), so the text has
    // a CONCRETE length and layout while its content is solver-chosen: the solver ranges over all NT^L files at once.
    pub const TW: usize = 14;
    pub const NT: usize = 10;
    pub static TOK: [[u8; TW]; NT] = [
        *b"[Key]         ",
        *b"Name = a      ",
        *b"Name = b      ",
        *b"PublicKey = P ",
        *b"PublicKey = Q ",
        *b"PrivateKey = x", // malformed private key (decodes to 36 bytes, not 84)
        *b"# comment     ",
        *b"              ",
        *b"junk          ",
        *b"Name          ", // field without a value
    ];
    /// The documented acceptance rule as a small state machine over tokens (the oracle). Returns (accepted, entries).
    pub fn token_oracle(sel: &[u8], l: usize) -> (bool, usize, [(u8, u8); 3]) {
        let mut entries = [(0u8, 0u8); 3];
        let mut n = 0usize;
        let mut found = false;
        let mut name: u8 = 0; // 0 = none
        let mut pk: u8 = 0;
        let mut ok = true;
        let mut i = 0;
        while i < l {
            let t = sel[i];
            if ok {
                match t {
                    0 => {
                        if found {
                            if name == 0 || pk == 0 { ok = false; } else {
                                let mut j = 0;
                                while j < 3 { if j < n && (entries[j].0 == name || entries[j].1 == pk) { ok = false; } j += 1; }
                                if ok { entries[n] = (name, pk); n += 1; name = 0; pk = 0; }
                            }
                        }
                        found = true;
                    }
                    1 | 2 => { if !found || name != 0 { ok = false; } else { name = if t == 1 { b'a' } else { b'b' }; } }
                    3 | 4 => { if !found || pk != 0 { ok = false; } else { pk = if t == 3 { b'P' } else { b'Q' }; } }
                    5 | 8 | 9 => { ok = false; }
                    _ => {}
                }
            }
            i += 1;
        }
        if ok {
            if !found || name == 0 || pk == 0 { ok = false; } else {
                let mut j = 0;
                while j < 3 { if j < n && (entries[j].0 == name || entries[j].1 == pk) { ok = false; } j += 1; }
                if ok { entries[n] = (name, pk); n += 1; }
            }
        }
        (ok, n, entries)
    }
    fn token_sequences(l: usize) {
        unsafe { ct_codecs::kani_model::M.att_len = 36; }
        let mut sel = [7u8; 7];
        let mut t = Txt::<112>::new();
        let mut i = 0;
        while i < 7 {
            if i < l {
                let k: u8 = kani::any();
                kani::assume((k as usize) < NT);
                sel[i] = k;
                let mut j = 0;
                while j < TW { t.byte(TOK[k as usize][j]); j += 1; }
                t.byte(b'\n');
            }
            i += 1;
        }
        let text = t.as_str();
        let (accept, n, entries) = token_oracle(&sel, l);
        let kr = Keyring::new(text);
        assert!(!unsafe { STR_LIMIT }, "[LIMIT] E-STR models are exact for ASCII text only");
        assert!(kr.is_ok() == accept, "[C17] a keyring is accepted iff every [Key] section has a Name and a PublicKey, fields occur once per section and only inside a section, nothing else but comments and blank lines occurs, and no name or public key occurs twice");
        if let Ok(k) = &kr {
            assert!(k.keys.len() == n, "[C17] on acceptance the entries are exactly the sections of the file");
            let mut j = 0;
            while j < 3 {
                if j < n {
                    let nb = k.keys[j].name.as_bytes();
                    let pb = k.keys[j].public_key.as_str().as_bytes();
                    assert!(nb.len() == 1 && nb[0] == entries[j].0 && pb.len() == 1 && pb[0] == entries[j].1 && k.keys[j].private_key.is_none(),
                            "[C17] ... in order, each with the name and key of its section");
                }
                j += 1;
            }
        }
        kani::cover!(kr.is_ok() && n == 1);
        kani::cover!(kr.is_err() && !accept);
        core::mem::forget(kr);
    }
    str_stubs! {
    /// C17(1): EVERY file of 4 lines over the 10 line tokens (10^4 files): accepted iff the documented rule accepts, entries
    /// = sections in order.
    #[kani::unwind(16)]
    pub fn c17_tokens_l4() { token_sequences(4); env_guard(); } }
    str_stubs! {
    /// C17(1): EVERY file of 6 lines over the 10 line tokens (10^6 files; two complete sections fit).
    #[kani::unwind(16)]
    pub fn c17_tokens_l6() { token_sequences(6); kani::cover!(true); env_guard(); } }

    fn format_two(n1: &str, p1: &str, n2: &str, p2: &str) -> String {
        let mut t = String::from("[Key]\nName = ");
        t.push_str(n1); t.push_str("\nPublicKey="); t.push_str(p1);
        t.push_str("\n\n[Key]\nName = "); t.push_str(n2); t.push_str("\nPublicKey="); t.push_str(p2); t.push('\n');
        t
    }
}
