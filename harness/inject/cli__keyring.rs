// Injected (cfg(kani) only) at the end of src/cli/src/keyring.rs: child module of `keyring`, sees the private
// tuple fields of EncodedPk/EncodedSk, Keyring.keys, parse_config, add_key.
//
// Environment: E-KDF (scrypt as an injective uninterpreted function), ideal AEAD on the IETF entry points,
// E-B64 (base64 as a bijection between byte strings and opaque tokens), SHA-256 uninterpreted.

#[allow(dead_code, static_mut_refs, unused_imports, unused_variables, unused_mut)]
pub(crate) mod verif_keyring {
    use super::*;

    // constructors for the command-level harnesses (commands.rs cannot reach the private fields)
    pub fn mk_sk(s: &str) -> EncodedSk { EncodedSk(String::from(s)) }
    pub fn mk_pk(s: &str) -> EncodedPk { EncodedPk(String::from(s)) }
    pub fn mk_keyring(keys: Vec<Key>) -> Keyring { Keyring { keys } }
    pub fn keys_of(k: &Keyring) -> &Vec<Key> { &k.keys }

    fn eq(a: &[u8], b: &[u8], n: usize) -> bool {
        let mut ok = a.len() >= n && b.len() >= n;
        let mut j = 0;
        while j < n { if ok && a[j] != b[j] { ok = false; } j += 1; }
        ok
    }

    // ---------------------------------------------------------------- E-B64
    // Base64 is replaced as a crate (harness/env/ct-codecs-kani): under cfg(kani) encode/decode are a
    // record/replay bijection between byte strings and opaque tokens; its tables are public statics.
    pub use ct_codecs::kani_model::{ATT_BYTES, ATT_ERR, ATT_LEN, B64_BYTES, B64_LEN, B64_N};

    // ---------------------------------------------------------------- E-KDF (injective, deterministic)
    pub static mut KDF_PW: [[u8; 4]; 3] = [[0; 4]; 3];
    pub static mut KDF_LONG: [[u8; 132]; 3] = [[0; 132]; 3]; // passwords of exactly 132 bytes (the long-password harness)
    pub static mut KDF_PWLEN: [usize; 3] = [0; 3];
    pub static mut KDF_SALT: [[u8; 32]; 3] = [[0; 32]; 3];
    pub static mut KDF_OUT: [[u8; 32]; 3] = [[0; 32]; 3];
    pub static mut KDF_N: usize = 0;
    pub static mut KDF_PARAMS_OK: bool = true;
    pub fn scrypt_model(password: &[u8], salt: &[u8], n: usize, r: usize, p: usize, dk_len: usize) -> Vec<u8> {
        unsafe {
            if !(n == 32768 && r == 8 && p == 1 && dk_len == 32 && salt.len() == 32) { KDF_PARAMS_OK = false; }
            assert!(password.len() <= 4 || password.len() == 132, "[LIMIT] harness bound: passwords of 0..4 bytes, or of exactly 132 bytes");
            let long = password.len() == 132;
            let pl = if long { 4 } else { password.len() };
            let mut i = 0;
            while i < KDF_N {
                if KDF_PWLEN[i] == password.len() && eq(password, &KDF_PW[i], pl) && (!long || eq(password, &KDF_LONG[i], 132)) && eq(salt, &KDF_SALT[i], 32) { return KDF_OUT[i].to_vec(); }
                i += 1;
            }
            assert!(KDF_N < 3, "[LIMIT] harness bound: three distinct scrypt inputs");
            let k = KDF_N;
            // (guarded per-byte copy: a symbolic-length memcpy into the table is mis-modelled by the back end)
            let mut j = 0;
            while j < 4 { if j < pl { KDF_PW[k][j] = password[j]; } j += 1; }
            KDF_PWLEN[k] = password.len();
            if long { KDF_LONG[k].copy_from_slice(password); }
            KDF_SALT[k].copy_from_slice(salt);
            let o: [u8; 32] = kani::any();
            // injective: a new (password, salt) never yields an earlier key
            let mut i = 0;
            while i < KDF_N { kani::assume(o != KDF_OUT[i]); i += 1; }
            KDF_OUT[k] = o;
            KDF_N += 1;
            o.to_vec()
        }
    }

    // ---------------------------------------------------------------- ideal AEAD on the IETF entry points
    pub static mut AE: (usize, [u8; 32], [u8; 12], [u8; 32], usize, [u8; 4], usize, [u8; 48]) = (0, [0; 32], [0; 12], [0; 32], 0, [0; 4], 0, [0; 48]); // n, key, nonce, pt, ptlen, aad, aadlen, ct
    pub fn seal_model(key: &[u8], nonce: &[u8], pt: &[u8], aad: &[u8]) -> Vec<u8> {
        unsafe {
            assert!(AE.0 == 0, "[C15] locking seals exactly once");
            assert!(key.len() == 32 && nonce.len() == 12, "[C19] key 32 bytes, nonce 12 bytes");
            AE.0 = 1;
            AE.1.copy_from_slice(key);
            AE.2.copy_from_slice(nonce);
            AE.4 = pt.len();
            if pt.len() == 32 { AE.3.copy_from_slice(pt); }
            AE.6 = aad.len();
            if aad.len() == 4 { AE.5.copy_from_slice(aad); }
            let c: [u8; 48] = kani::any();
            AE.7 = c;
            c.to_vec()
        }
    }
    pub fn open_model(key: &[u8], nonce: &[u8], ct: &[u8], aad: &[u8]) -> Result<Vec<u8>, kestrel_crypto::errors::ChaPolyDecryptError> {
        unsafe {
            if AE.0 == 1 && key.len() == 32 && eq(key, &AE.1, 32) && nonce.len() == 12 && eq(nonce, &AE.2, 12) && aad.len() == AE.6 && eq(aad, &AE.5, AE.6)
                && ct.len() == 48 && eq(ct, &AE.7, 48) {
                return Ok(AE.3.to_vec());
            }
            Err(kestrel_crypto::errors::ChaPolyDecryptError)
        }
    }

    /// C15: format equation, round trip, other passwords, any one-byte change, other decoded lengths.
    #[kani::proof]
    #[kani::stub(kestrel_crypto::scrypt::scrypt, scrypt_model)]
    #[kani::stub(kestrel_crypto::chapoly_encrypt_ietf, seal_model)]
    #[kani::stub(kestrel_crypto::chapoly_decrypt_ietf, open_model)]
    #[kani::unwind(120)]
    pub fn c15_lock_unlock() {
        let skb: [u8; 32] = kani::any();
        let salt: [u8; 32] = kani::any();
        let pwb: [u8; 4] = kani::any();
        let pl: usize = kani::any();
        kani::assume(pl <= 4);
        let sk = PrivateKey::try_from(&skb[..]).unwrap();
        let locked = Keyring::lock_private_key(&sk, &pwb[..pl], salt);
        unsafe {
            assert!(KDF_PARAMS_OK && KDF_N == 1, "[C15] the locking key is scrypt(password, salt, 32768, 8, 1) -> 32 bytes");
            assert!(KDF_PWLEN[0] == pl, "[C15] scrypt gets the password (length)");
            assert!(eq(&KDF_PW[0], &pwb, pl), "[C15] scrypt gets the password (bytes)");
            assert!(eq(&KDF_SALT[0], &salt, 32), "[C15] scrypt gets the salt");
            assert!(AE.0 == 1 && AE.1 == KDF_OUT[0] && AE.2 == [0u8; 12] && AE.4 == 32 && AE.3 == skb && AE.6 == 4 && AE.5 == [0x65, 0x67, 0x6b, 0x30],
                    "[C15] sealed = ChaCha20-Poly1305(key = scrypt output, nonce = 0^12, plaintext = the 32-byte private key, aad = 65 67 6B 30)");
            assert!(B64_N == 1 && B64_LEN[0] == 84, "[C15] the locked key is the base64 of 84 bytes");
            assert!(B64_BYTES[0][0] == 0x65 && B64_BYTES[0][1] == 0x67 && B64_BYTES[0][2] == 0x6b && B64_BYTES[0][3] == 0x30, "[C15] blob starts with the version 65 67 6B 30");
            assert!(eq(&B64_BYTES[0][4..], &salt, 32), "[C15] then the 32-byte salt");
            assert!(eq(&B64_BYTES[0][36..], &AE.7, 48), "[C15] then ciphertext and tag (48 bytes)");
        }
        // parses back through the public constructor
        let reparsed = EncodedSk::try_from(locked.as_str());
        assert!(reparsed.is_ok(), "[C15,C17] a locked key the tool writes is accepted by the keyring parser's check");
        // same password
        let un = Keyring::unlock_private_key(&locked, &pwb[..pl]);
        assert!(un.is_ok() && un.as_ref().unwrap().as_bytes() == &skb[..], "[C15,C16] unlocking with the same password returns exactly the original key");
        // any other password
        let pwb2: [u8; 4] = kani::any();
        let pl2: usize = kani::any();
        kani::assume(pl2 <= 4);
        kani::assume(pl2 != pl || !eq(&pwb2, &pwb, pl));
        let un2 = Keyring::unlock_private_key(&locked, &pwb2[..pl2]);
        assert!(matches!(un2, Err(KeyringError::PrivateKeyDecrypt)), "[C15,C16] any other password fails to unlock");
        assert!(unsafe { KDF_PARAMS_OK }, "[C15] unlocking uses the same scrypt parameters");
        kani::cover!(pl == 0 && pl2 == 1);
        kani::cover!(pl == 4 && pl2 == 4);
        core::mem::forget(sk); core::mem::forget(un); core::mem::forget(un2);
    }

    /// C15/C16: long passwords (132 bytes, longer than any block or name limit) count in full: two passwords that
    /// differ in ONE byte anywhere (in particular beyond byte 64 or 128) are different passwords.
    #[kani::proof]
    #[kani::stub(kestrel_crypto::scrypt::scrypt, scrypt_model)]
    #[kani::stub(kestrel_crypto::chapoly_encrypt_ietf, seal_model)]
    #[kani::stub(kestrel_crypto::chapoly_decrypt_ietf, open_model)]
    #[kani::unwind(140)]
    pub fn c15_long_passwords() {
        let skb: [u8; 32] = kani::any();
        let salt: [u8; 32] = kani::any();
        let pw1: [u8; 132] = kani::any();
        let k: usize = kani::any();
        let d: u8 = kani::any();
        kani::assume(k < 132 && d != 0);
        let mut pw2 = pw1;
        pw2[k] ^= d;
        let sk = PrivateKey::try_from(&skb[..]).unwrap();
        let locked = Keyring::lock_private_key(&sk, &pw1, salt);
        let un = Keyring::unlock_private_key(&locked, &pw1);
        assert!(un.is_ok() && un.as_ref().unwrap().as_bytes() == &skb[..], "[C15,C16] a 132-byte password unlocks what it locked");
        let un2 = Keyring::unlock_private_key(&locked, &pw2);
        assert!(un2.is_err(), "[C15,C16] a long password that differs in any single byte (also beyond byte 64 / 128) does not unlock");
        kani::cover!(k == 131);
        kani::cover!(k == 0);
        core::mem::forget(sk); core::mem::forget(un); core::mem::forget(un2);
    }

    /// C15: a change to any one of the 84 bytes (any non-zero xor), and blobs of any other length.
    #[kani::proof]
    #[kani::stub(kestrel_crypto::scrypt::scrypt, scrypt_model)]
    #[kani::stub(kestrel_crypto::chapoly_encrypt_ietf, seal_model)]
    #[kani::stub(kestrel_crypto::chapoly_decrypt_ietf, open_model)]
    #[kani::unwind(120)]
    pub fn c15_tamper() {
        let skb: [u8; 32] = kani::any();
        let salt: [u8; 32] = kani::any();
        let pw = [0x70u8, 0x77];
        let sk = PrivateKey::try_from(&skb[..]).unwrap();
        let locked = Keyring::lock_private_key(&sk, &pw, salt);
        // the attacker's string decodes to the authentic 84 bytes with byte k changed, or to some other length
        let k: usize = kani::any();
        let d: u8 = kani::any();
        kani::assume(k < 84 && d != 0);
        let other_len: bool = kani::any();
        unsafe {
            ATT_BYTES[..84].copy_from_slice(&B64_BYTES[0]);
            if other_len {
                let n: usize = kani::any();
                kani::assume(n <= 90 && n != 84);
                ATT_LEN = n;
            } else {
                ATT_BYTES[k] ^= d;
                ATT_LEN = 84;
            }
        }
        let s = "XXXXXXXXXXXXXXXXXXXXXXXXXXXXXXXXXXXXXXXXXXXXXXXXXXXXXXXXXXXXXXXXXXXXXXXXXXXXXXXXXXXXXXXXXXXXXXXXXXXXXXXXXXXXXXXXXXXXXXXXXXXX";
        let parsed = EncodedSk::try_from(s);
        if other_len {
            assert!(parsed.is_err(), "[C15,C09] a string that does not decode to exactly 84 bytes is not a locked key");
        } else {
            assert!(parsed.is_ok(), "[C15] 84 decoded bytes pass the length check");
            let un = Keyring::unlock_private_key(parsed.as_ref().unwrap(), &pw);
            assert!(un.is_err(), "[C15] a change to any one of the 84 bytes makes unlocking fail");
            if k < 4 { assert!(matches!(un, Err(KeyringError::PrivateKeyFormat)), "[C15] a changed version is reported as unsupported format"); }
            core::mem::forget(un);
        }
        kani::cover!(!other_len && k == 3 && d == 1);
        kani::cover!(!other_len && k == 4);
        kani::cover!(!other_len && k == 83);
        kani::cover!(other_len && unsafe { ATT_LEN } == 0);
        core::mem::forget(sk);
    }

    // ---------------------------------------------------------------- public keys: checksum
    pub static mut SHA_IN: [u8; 32] = [0; 32];
    pub static mut SHA_INLEN: usize = 0;
    pub static mut SHA_OUT: [u8; 32] = [0; 32];
    pub static mut SHA_N: usize = 0;
    pub fn sha_model(data: &[u8]) -> Vec<u8> {
        unsafe {
            // deterministic: the same input gives the same output
            if SHA_N >= 1 && data.len() == SHA_INLEN && eq(data, &SHA_IN, SHA_INLEN) { SHA_N += 1; return SHA_OUT.to_vec(); }
            assert!(SHA_N == 0 && data.len() == 32, "[C17] the checksum hashes exactly the 32 key bytes");
            SHA_IN.copy_from_slice(data);
            SHA_INLEN = 32;
            let o: [u8; 32] = kani::any();
            SHA_OUT = o;
            SHA_N = 1;
            o.to_vec()
        }
    }

    /// C17(3): encode = base64(pk || SHA256(pk)[..4]); decode(encode(pk)) = pk; a 36-byte blob is usable iff its last
    /// four bytes are SHA256(first 32)[..4]; other lengths are errors, never panics.
    #[kani::proof]
    #[kani::stub(kestrel_crypto::sha256, sha_model)]
    #[kani::unwind(60)]
    pub fn c17_public_key_checksum() {
        let pkb: [u8; 32] = kani::any();
        let which: u8 = kani::any();
        kani::assume(which <= 2);
        if which == 0 {
            let pk = PublicKey::try_from(&pkb[..]).unwrap();
            let enc = Keyring::encode_public_key(&pk);
            unsafe {
                assert!(B64_N == 1 && B64_LEN[0] == 36 && eq(&B64_BYTES[0], &pkb, 32), "[C17,C16] encoded public key = base64(32 key bytes || checksum)");
                assert!(SHA_IN == pkb && eq(&B64_BYTES[0][32..], &SHA_OUT, 4), "[C17] checksum = first 4 bytes of SHA-256(key)");
            }
            assert!(EncodedPk::try_from(enc.as_str()).is_ok(), "[C17] what the tool writes is accepted by the parser's check");
            let dec = Keyring::decode_public_key(&enc);
            assert!(dec.is_ok() && dec.as_ref().unwrap().as_bytes() == &pkb[..], "[C17] decode(encode(pk)) = pk");
        } else if which == 1 {
            // an arbitrary 36-byte blob
            let blob: [u8; 36] = kani::any();
            unsafe { ATT_BYTES[..36].copy_from_slice(&blob); ATT_LEN = 36; }
            let e = EncodedPk::try_from("XXXXXXXXXXXXXXXXXXXXXXXXXXXXXXXXXXXXXXXXXXXXXXXX");
            assert!(e.is_ok(), "[C17] 36 decoded bytes pass the length check");
            let dec = Keyring::decode_public_key(e.as_ref().unwrap());
            let good = unsafe { eq(&blob[32..], &SHA_OUT, 4) && eq(&SHA_IN, &blob, 32) };
            assert!(dec.is_ok() == good, "[C17] a public key is usable iff its 4-byte checksum matches SHA-256 of its 32 key bytes");
            if let Ok(p) = &dec { assert!(p.as_bytes() == &blob[..32], "[C17] the decoded key is the first 32 bytes"); }
            kani::cover!(dec.is_ok());
            kani::cover!(dec.is_err());
        } else {
            // any other decoded length, or undecodable
            let n: usize = kani::any();
            kani::assume(n <= 40 && n != 36);
            unsafe { ATT_LEN = n; ATT_ERR = kani::any(); }
            let e = EncodedPk::try_from("XXXXXXXXXXXXXXXXXXXXXXXXXXXXXXXXXXXXXXXXXXXXXXXX");
            assert!(e.is_err(), "[C17,C09] a string that does not decode to exactly 36 bytes is not a public key");
        }
    }

    // ---------------------------------------------------------------- lookups
    /// C12/C17: get_key / get_name_from_key return the entry with exactly that name / encoded key, first match, else None.
    #[kani::proof]
    #[kani::unwind(6)]
    pub fn c17_lookup() {
        let names = ["a", "b", "c"];
        let pks = ["P0", "P1", "P2"];
        let n: usize = kani::any();
        kani::assume(n <= 3);
        let mut keys = Vec::new();
        let mut i = 0;
        while i < n {
            keys.push(Key { name: String::from(names[i]), public_key: EncodedPk(String::from(pks[i])), private_key: None });
            i += 1;
        }
        let kr = Keyring { keys };
        let q: usize = kani::any();
        kani::assume(q < 4);
        let qpk = EncodedPk(String::from(if q == 0 { "P0" } else if q == 1 { "P1" } else if q == 2 { "P2" } else { "P9" }));
        let got = kr.get_name_from_key(&qpk);
        if q < n { assert!(got.as_deref() == Some(names[q]), "[C12,C17,C05] the sender is named by the entry whose encoded public key equals the authenticated key"); }
        else { assert!(got.is_none(), "[C12,C17] a key that is not in the keyring is reported as unknown"); }
        let qn = if q == 0 { "a" } else if q == 1 { "b" } else if q == 2 { "c" } else { "zz" };
        let k = kr.get_key(qn);
        if q < n { assert!(k.is_some() && k.unwrap().public_key.as_str() == pks[q], "[C17,C12] lookup by name returns that entry"); }
        else { assert!(k.is_none(), "[C17] unknown names are not found"); }
        // names are matched exactly: a name that differs only in case is a different (here: absent) key
        assert!(kr.get_key("A").is_none() && kr.get_key("B").is_none(), "[C17,C05,C12] lookup by name is exact (case-sensitive): a file is only ever addressed to / opened with the key of exactly the name given");
        kani::cover!(n == 3 && q == 2);
        kani::cover!(n == 0);
        core::mem::forget(kr); core::mem::forget(got);
    }

    /// C17/C09: valid_key_name: 1..=128 bytes.
    #[kani::proof]
    #[kani::unwind(4)]
    pub fn c17_valid_key_name() {
        let buf = [b'x'; 130];
        let n: usize = kani::any();
        kani::assume(n <= 130);
        let s = unsafe { core::str::from_utf8_unchecked(&buf[..n]) };
        assert!(Keyring::valid_key_name(s) == (n >= 1 && n <= 128), "[C17] a key name is valid iff it has 1..=128 bytes");
    }

    // ---------------------------------------------------------------- the parser
    // E-CUT: error-message formatting produces nothing (message text is not the subject)
    pub fn fmtwrite_cut(_o: &mut dyn core::fmt::Write, _a: core::fmt::Arguments<'_>) -> core::fmt::Result { Ok(()) }
    pub fn format_cut(_a: core::fmt::Arguments<'_>) -> String { String::from("F") }
    pub const PK_A: &str = "P"; // any non-token string decodes (E-B64 model) to the harness's 36 bytes
    pub const PK_B: &str = "Q";

    fn name_text(name: &[u8], n: usize) -> String {
        // the text serialize_key() writes for one key without a private key line
        let mut t = String::from("[Key]\nName=");
        t.push_str(unsafe { core::str::from_utf8_unchecked(&name[..n]) });
        t.push_str("\nPublicKey=");
        t.push_str(PK_A);
        t.push('\n');
        t
    }
    fn is_ws(b: u8) -> bool { b == b' ' || (b >= 9 && b <= 13) }
    fn name_roundtrip(with_tab: bool, maxn: usize) {
        unsafe { ct_codecs::kani_model::ATT_LEN = 36; }
        let mut name: [u8; 3] = kani::any();
        let n: usize = if with_tab { 3 } else { kani::any() };
        kani::assume(n >= 1 && n <= maxn);
        if with_tab { name[1] = b'\t'; kani::assume(name[0] == b'a' && name[2] == b'b'); }
        // names `key generate` accepts: one line of input, trimmed, non-empty (ASCII here)
        let mut has_tab = false;
        let mut j = 0;
        while j < 3 {
            if j < n {
                kani::assume(name[j] != 0 && name[j] < 0x80 && name[j] != b'\n');
                if name[j] == b'\t' { has_tab = true; }
            }
            j += 1;
        }
        kani::assume(!is_ws(name[0]) && !is_ws(name[n - 1]));
        kani::assume(has_tab == with_tab);
        let text = name_text(&name, n);
        let kr = Keyring::new(&text);
        if with_tab {
            assert!(kr.is_ok() && kr.as_ref().unwrap().keys.len() == 1 && kr.as_ref().unwrap().keys[0].name.as_bytes() == &name[..n],
                    "[C17] KF-F4 a key name containing a TAB, as written by key generation, parses back to itself");
        } else {
            assert!(kr.is_ok(), "[C17,C14] a [Key] section as written by key generation is accepted");
            let kr = kr.unwrap();
            assert!(kr.keys.len() == 1, "[C17] one section gives one entry");
            assert!(kr.keys[0].name.as_bytes() == &name[..n], "[C17,C14] the name parses back to exactly the name that was written");
            assert!(kr.keys[0].public_key.as_str() == PK_A && kr.keys[0].private_key.is_none(), "[C17] the public key parses back to exactly what was written");
            assert!(kr.get_key(unsafe { core::str::from_utf8_unchecked(&name[..n]) }).is_some(), "[C17,C12] the key is found under the name that was written");
            core::mem::forget(kr);
        }
    }
    /// C17(2): names accepted by key generation (no TAB) round-trip through the parser.
    #[kani::proof]
    #[kani::stub(core::fmt::write, fmtwrite_cut)]
    #[kani::stub(alloc::fmt::format, format_cut)]
    #[kani::unwind(20)]
    pub fn c17_name_roundtrip() { name_roundtrip(false, 2); }
    /// Known finding F4: a name containing a TAB does not round-trip (the parser deletes every TAB). Fully concrete input.
    #[kani::proof]
    #[kani::stub(core::fmt::write, fmtwrite_cut)]
    #[kani::stub(alloc::fmt::format, format_cut)]
    #[kani::unwind(20)]
    pub fn c17_name_roundtrip_tab() {
        unsafe { ct_codecs::kani_model::ATT_LEN = 36; }
        let name = *b"a\tb";
        let text = name_text(&name, 3);
        let kr = Keyring::new(&text);
        assert!(kr.is_ok() && kr.as_ref().unwrap().keys.len() == 1 && kr.as_ref().unwrap().keys[0].name.as_bytes() == &name[..],
                "[C17] KF-F4 a key name containing a TAB, as written by key generation, parses back to itself");
        core::mem::forget(kr);
    }

    /// C17(1): structural acceptance, compared with the documented rule: every [Key] section has a Name and a PublicKey,
    /// fields appear once per section and only inside a section, names and public keys are unique, entries = sections
    /// in order. (a) two sections with SYMBOLIC one-byte names and symbolic choice of public keys: accepted iff names
    /// differ and keys differ; (b) ten concrete section shapes, run one after the other.
    #[kani::proof]
    #[kani::stub(core::fmt::write, fmtwrite_cut)]
    #[kani::stub(alloc::fmt::format, format_cut)]
    #[kani::unwind(20)]
    pub fn c17_sections() {
        unsafe { ct_codecs::kani_model::ATT_LEN = 36; }
        // (a)
        let (n1, n2): (u8, u8) = (kani::any(), kani::any());
        kani::assume(n1 >= b'a' && n1 <= b'c' && n2 >= b'a' && n2 <= b'c');
        let same_pk: bool = kani::any();
        let b1 = [n1];
        let b2 = [n2];
        let text = format_two(unsafe { core::str::from_utf8_unchecked(&b1) }, PK_A, unsafe { core::str::from_utf8_unchecked(&b2) }, if same_pk { PK_A } else { PK_B });
        let kr = Keyring::new(&text);
        assert!(kr.is_ok() == (n1 != n2 && !same_pk), "[C17] a keyring is accepted iff no name and no public key occurs twice");
        if let Ok(k) = &kr {
            assert!(k.keys.len() == 2 && k.keys[0].name.as_bytes() == &b1[..] && k.keys[1].name.as_bytes() == &b2[..] && k.keys[1].public_key.as_str() == PK_B,
                    "[C17] entries are exactly the sections of the file, in order");
        }
        kani::cover!(kr.is_ok());
        kani::cover!(kr.is_err() && n1 != n2);
        core::mem::forget(kr);
    }

    /// C17(1b): ten concrete section shapes, run one after the other (concrete inputs: the parser is executed, not solved).
    #[kani::proof]
    #[kani::stub(core::fmt::write, fmtwrite_cut)]
    #[kani::stub(alloc::fmt::format, format_cut)]
    #[kani::unwind(20)]
    pub fn c17_shapes() {
        unsafe { ct_codecs::kani_model::ATT_LEN = 36; }
        let shapes: [(&str, bool, usize); 10] = [
            ("[Key]\n[Key]\nName = a\nPublicKey = P\n", false, 0), // empty first section
            ("[Key]\nName = a\nPublicKey = P\n[Key]\n", false, 0), // empty last section
            ("Name = a\n[Key]\nPublicKey = P\n", false, 0),       // field outside a section
            ("[Key]\nName = a\n", false, 0),                                                                   // no public key
            ("[Key]\nPublicKey = P\n", false, 0),                 // no name
            ("[Key]\nName = a\nName = b\nPublicKey = P\n", false, 0), // field twice
            ("# c\n\n[Key]\n# c\nName = a\n\nPublicKey = P", true, 1),  // comments, blanks, no final newline
            ("[Key]\nName = a\njunk\nPublicKey = P\n", false, 0),   // junk line
            ("[Key]\nPrivateKey = x\nName = a\nPublicKey = P\n", false, 0), // malformed private key
            ("", false, 0),                                                                                      // empty file
        ];
        let mut i = 0;
        while i < 10 {
            let (t, accept, count) = shapes[i];
            let kr = Keyring::new(t);
            assert!(kr.is_ok() == accept, "[C17] a keyring is accepted iff every [Key] section is complete, fields are unique per section and inside a section");
            if let Ok(k) = &kr { assert!(k.keys.len() == count && k.keys[0].name == "a", "[C17] entries are exactly the sections of the file"); }
            core::mem::forget(kr);
            i += 1;
        }
    }
    fn format_two(n1: &str, p1: &str, n2: &str, p2: &str) -> String {
        let mut t = String::from("[Key]\nName = ");
        t.push_str(n1); t.push_str("\nPublicKey="); t.push_str(p1);
        t.push_str("\n\n[Key]\nName = "); t.push_str(n2); t.push_str("\nPublicKey="); t.push_str(p2); t.push('\n');
        t
    }
}
