// Injected (cfg(kani) only) at the end of src/crypto/src/encrypt.rs: child module of `encrypt`,
// sees the private `encrypt_chunks`, PROLOGUE, PASS_FILE_MAGIC, read_err/write_err.
//
// H-ENC: the REAL encrypt_chunks over every plaintext / read partition / fault within the bound,
// AEAD = ideal table (verif_common::seal_model).  Output is compared byte for byte with an
// executable transcription of docs/file-format.txt ("model") built from the seal log.
//
// Cost notes (measured): harness code is loop-free (vrep!), never compares arrays with `==`
// (memcmp loop), the sink compares each write call against the model at concrete offsets and
// overrides write_all (std's loop re-inlines the sink body once per unwinding otherwise).

#[allow(dead_code, static_mut_refs, unused_imports, unused_variables, unused_mut)]
pub(crate) mod verif_enc {
    use super::*;
    use crate::verif_common::*;
    use crate::vrep;
    use std::io::{Read, Write};

    pub fn prologue() -> [u8; 4] { PROLOGUE }
    pub fn pass_magic() -> [u8; 4] { PASS_FILE_MAGIC }

    pub const MAXP: usize = 5; // plaintext buffer
    pub const MAXR: usize = 7; // read calls logged
    pub const NONE: usize = usize::MAX;

    pub static mut SRC_POS: usize = 0; // plaintext bytes consumed so far
    pub static mut PAYLOAD_DONE: usize = 0; // plaintext bytes of the chunks whose record is completely in the sink
    pub static mut MAX_LAG: usize = 0; // max over read calls of (consumed - PAYLOAD_DONE)
    pub static mut AADLEN: usize = 0;
    pub static mut NAT_LEN: usize = 0; // native replay: ciphertext bytes accepted by the sink so far

    /// Scripted plaintext source: every call returns a solver-chosen count 1..=min(buf, remaining)
    /// (or everything when `full`), 0 at EOF, or a fault at call index `fault_at`.
    pub struct SR { pub data: [u8; MAXP], pub len: usize, pub pos: usize, pub calls: usize, pub full: bool, pub sched: [usize; MAXR],
                    pub fault_at: usize, pub fault_kind: u8, pub sizes: [usize; MAXR], pub maxbuf: usize, pub faulted: bool }
    impl SR {
        /// the read schedule is drawn up front (one solver-chosen count per call index) so that the order of
        /// `kani::any()` draws is the same under verification and in the native replay
        pub fn new(data: [u8; MAXP], len: usize, full: bool) -> Self {
            let sched: [usize; MAXR] = if full { [0; MAXR] } else { kani::any() };
            SR { data, len, pos: 0, calls: 0, full, sched, fault_at: NONE, fault_kind: 0, sizes: [0; MAXR], maxbuf: 0, faulted: false }
        }
        /// plaintext bytes of the records that are completely in the (native) sink, from the read log
        fn native_done(&self) -> usize {
            let have = unsafe { NAT_LEN };
            let (mut end, mut done) = (0usize, 0usize);
            let mut i = 0;
            while i < MAXR { if self.sizes[i] > 0 || (i == 0 && self.len == 0) { end += 32 + self.sizes[i]; if end <= have { done += self.sizes[i]; } } i += 1; }
            done
        }
    }
    impl Read for SR {
        fn read(&mut self, buf: &mut [u8]) -> std::io::Result<usize> {
            let c = self.calls;
            self.calls += 1;
            if buf.len() > self.maxbuf { self.maxbuf = buf.len(); }
            unsafe {
                let done = if native() { self.native_done() } else { PAYLOAD_DONE };
                let lag = SRC_POS - done;
                if lag > MAX_LAG { MAX_LAG = lag; }
            }
            if c == self.fault_at { self.faulted = true; return Err(io_err(self.fault_kind)); }
            let rem = self.len - self.pos;
            if rem == 0 || buf.len() == 0 { return Ok(0); }
            let maxk = if rem < buf.len() { rem } else { buf.len() };
            let k: usize = if self.full { maxk } else if c < MAXR { self.sched[c] } else { maxk };
            kani::assume(k >= 1 && k <= maxk && k <= MAXCS);
            vrep!(3, j, { if j < k { buf[j] = self.data[self.pos + j]; } });
            if c < MAXR { self.sizes[c] = k; }
            self.pos += k;
            unsafe { SRC_POS = self.pos; }
            Ok(k)
        }
    }

    /// first 16 bytes of `buf` == BE64(idx) || 8 bytes authenticated in the AAD (flag, length)
    fn hdr_ok(e: &Entry, idx: usize, a: usize, buf: &[u8]) -> bool {
        let ib = (idx as u64).to_be_bytes();
        let mut ok = true;
        vrep!(8, j, { if buf[j] != ib[j] { ok = false; } });
        vrep!(8, j, { if buf[8 + j] != e.ad[a + j] { ok = false; } });
        ok
    }
    /// `buf` == ct || tag of entry e
    fn body_ok(e: &Entry, buf: &[u8]) -> bool {
        let n = e.ptlen;
        let t = e.tag.to_le_bytes();
        let mut ok = true;
        vrep!(3, j, { if j < n && buf[j] != e.ct[j] { ok = false; } });
        vrep!(16, j, { if buf[n + j] != t[j] { ok = false; } });
        ok
    }
    /// byte `wi` of the record the format prescribes for the `idx`-th sealed chunk (general form)
    pub fn record_byte(e: &Entry, idx: usize, a: usize, wi: usize) -> u8 {
        if wi < 8 { (idx as u64).to_be_bytes()[wi] }
        else if wi < 16 { e.ad[a + wi - 8] }
        else if wi < 16 + e.ptlen { e.ct[wi - 16] }
        else { e.tag.to_le_bytes()[wi - 16 - e.ptlen] }
    }

    /// Comparing sink. The stream the format model prescribes for the seal log is, for each logged seal i,
    ///   BE64(i) || flag_i || len_i || ct_i || tag_i     (flag_i, len_i = the 8 bytes authenticated in AAD_i).
    /// Each write call is compared with that stream at the cursor (record `ci`, offset `wi`); no copy of the
    /// stream is kept. Modelled call structures: header (16) then body (len+16), or one call per record;
    /// anything else sets `limit` (=> inconclusive, never an alarm). Accepts whole writes; can fail or return
    /// Ok(0) at a chosen write / flush call. Partial writes: ShortSink.
    pub struct Sink { pub ci: usize, pub wi: usize, pub len: usize, pub writes: usize, pub flushes: usize, pub flushed_len: usize,
                      pub wfault_at: usize, pub ffault_at: usize, pub fault_kind: u8, pub zero_at: usize,
                      pub mismatch: bool, pub beyond: bool, pub limit: bool, pub faulted: bool, pub after_fault: bool, pub interrupted_once: bool,
                      pub nat: Vec<u8> }
    impl Sink {
        pub fn new() -> Self {
            Sink { ci: 0, wi: 0, len: 0, writes: 0, flushes: 0, flushed_len: 0, wfault_at: NONE, ffault_at: NONE,
                   fault_kind: 3, zero_at: NONE, mismatch: false, beyond: false, limit: false, faulted: false, after_fault: false, interrupted_once: false,
                   nat: Vec::with_capacity(1) } // (never a capacity-0 Vec: Kani model quirk on drop)
        }
        fn take(&mut self, buf: &[u8]) {
            let a = unsafe { AADLEN };
            let n = unsafe { NSEAL };
            if self.ci >= n { self.beyond = true; return; }
            let e = tget(self.ci);
            let k = buf.len();
            if self.wi == 0 && k == 16 {
                if !hdr_ok(&e, self.ci, a, buf) { self.mismatch = true; }
                self.wi = 16;
            } else if self.wi == 16 && k == e.ptlen + 16 {
                if !body_ok(&e, buf) { self.mismatch = true; }
                self.wi = 0;
                self.ci += 1;
                unsafe { PAYLOAD_DONE += e.ptlen; }
            } else if self.wi == 0 && k == 32 + e.ptlen {
                if !hdr_ok(&e, self.ci, a, buf) { self.mismatch = true; }
                if !body_ok(&e, &buf[16..]) { self.mismatch = true; }
                self.ci += 1;
                unsafe { PAYLOAD_DONE += e.ptlen; }
            } else {
                self.limit = true;
            }
        }
    }
    impl Write for Sink {
        fn write(&mut self, buf: &[u8]) -> std::io::Result<usize> {
            let c = self.writes;
            self.writes += 1;
            if self.faulted && !self.interrupted_once { self.after_fault = true; }
            if c == self.wfault_at {
                self.faulted = true;
                if self.fault_kind == 0 { self.interrupted_once = true; }
                return Err(io_err(self.fault_kind));
            }
            if c == self.zero_at { self.faulted = true; return Ok(0); }
            if native() {
                // native replay: real AEAD, so just keep the bytes; they are compared with the reference encoding afterwards
                self.nat.extend_from_slice(buf);
                self.len += buf.len();
                unsafe { NAT_LEN = self.len; }
                return Ok(buf.len());
            }
            self.take(buf);
            self.len += buf.len();
            Ok(buf.len())
        }
        /// std's write_all specialised to this sink (every write accepts everything or fails; at most one fault
        /// per run): one call, plus the one retry std makes after ErrorKind::Interrupted. Loop-free.
        fn write_all(&mut self, buf: &[u8]) -> std::io::Result<()> {
            if buf.is_empty() { return Ok(()); }
            match self.write(buf) {
                Ok(0) => Err(std::io::Error::from(std::io::ErrorKind::WriteZero)),
                Ok(_) => Ok(()),
                Err(e) => {
                    if e.kind() == std::io::ErrorKind::Interrupted {
                        match self.write(buf) {
                            Ok(0) => Err(std::io::Error::from(std::io::ErrorKind::WriteZero)),
                            Ok(_) => Ok(()),
                            Err(e2) => Err(e2),
                        }
                    } else { Err(e) }
                }
            }
        }
        fn flush(&mut self) -> std::io::Result<()> {
            let c = self.flushes;
            self.flushes += 1;
            if self.faulted && !self.interrupted_once { self.after_fault = true; }
            if c == self.ffault_at { self.faulted = true; return Err(io_err(self.fault_kind)); }
            self.flushed_len = self.len;
            Ok(())
        }
    }

    /// A sink whose write accepts only a solver-chosen part (>= 1 byte) of what is offered, then everything of the
    /// follow-up call: every write_all is split once at an arbitrary point (std's real write_all loop runs: 2 iterations).
    /// For single-record files (chunk size 1): the expected record is laid out once in a 36-byte array and every
    /// accepted byte is compared against it at the running offset.
    pub struct ShortSink { pub exp: [u8; 36], pub exp_len: usize, pub built: bool, pub pos: usize, pub writes: usize, pub flushed_len: usize,
                           pub mismatch: bool, pub beyond: bool, pub limit: bool, pub in_rest: bool, pub splits: usize,
                           pub ks: [usize; 4], pub firsts: usize, pub nat: Vec<u8> }
    impl ShortSink {
        /// split points are drawn up front (same draw order under verification and in the native replay)
        pub fn new() -> Self {
            let ks: [usize; 4] = kani::any();
            ShortSink { exp: [0; 36], exp_len: 0, built: false, pos: 0, writes: 0, flushed_len: 0, mismatch: false, beyond: false, limit: false, in_rest: false, splits: 0,
                        ks, firsts: 0, nat: Vec::with_capacity(1) }
        }
        fn build(&mut self) {
            if self.built { return; }
            self.built = true;
            if unsafe { NSEAL } != 1 { self.limit = true; return; }
            let e = tget(0);
            let a = unsafe { AADLEN };
            // BE64(0) || flag || len (as authenticated) || ct || tag
            vrep!(8, j, { self.exp[8 + j] = e.ad[a + j]; });
            let t = e.tag.to_le_bytes();
            if e.ptlen == 0 {
                vrep!(16, j, { self.exp[16 + j] = t[j]; });
                self.exp_len = 32;
            } else {
                self.exp[16] = e.ct[0];
                vrep!(16, j, { self.exp[17 + j] = t[j]; });
                self.exp_len = 33;
                if e.ptlen != 1 { self.limit = true; }
            }
        }
    }
    impl Write for ShortSink {
        fn write(&mut self, buf: &[u8]) -> std::io::Result<usize> {
            self.writes += 1;
            if buf.len() == 0 { return Ok(0); }
            if buf.len() > 20 { self.limit = true; return Ok(buf.len()); }
            if !native() { self.build(); }
            let k: usize = if self.in_rest { buf.len() } else if self.firsts < 4 { let f = self.firsts; self.firsts += 1; self.ks[f] } else { buf.len() };
            kani::assume(k >= 1 && k <= buf.len());
            if !self.in_rest && k < buf.len() { self.in_rest = true; self.splits += 1; } else { self.in_rest = false; }
            if native() { self.nat.extend_from_slice(&buf[..k]); self.pos += k; return Ok(k); }
            if self.pos + k > self.exp_len { self.beyond = true; self.pos += k; return Ok(k); }
            let p = self.pos;
            vrep!(20, j, { if j < k && buf[j] != self.exp[p + j] { self.mismatch = true; } });
            self.pos += k;
            Ok(k)
        }
        fn flush(&mut self) -> std::io::Result<()> { self.flushed_len = self.pos; Ok(()) }
    }

    // ------------------------------------------------------------------ native replay twin (cargo kani playback)
    /// docs/file-format.txt, executed with the REAL AEAD: the file for plaintext `p` split into chunks of `sizes`.
    pub fn native_reference(p: &[u8], sizes: &[usize], aad: &[u8], key: &[u8]) -> Vec<u8> {
        let mut out = Vec::new();
        let chunks: Vec<usize> = sizes.iter().cloned().filter(|&k| k > 0).collect();
        let chunks = if chunks.is_empty() { vec![0usize] } else { chunks };
        let mut off = 0usize;
        for (i, &l) in chunks.iter().enumerate() {
            let last: u32 = if i + 1 == chunks.len() { 1 } else { 0 };
            let mut ad = aad.to_vec();
            ad.extend_from_slice(&last.to_be_bytes());
            ad.extend_from_slice(&(l as u32).to_be_bytes());
            out.extend_from_slice(&(i as u64).to_be_bytes());
            out.extend_from_slice(&last.to_be_bytes());
            out.extend_from_slice(&(l as u32).to_be_bytes());
            out.extend_from_slice(&crate::chapoly_encrypt_noise(key, i as u64, &ad, &p[off..off + l]));
            off += l;
        }
        out
    }
    /// native counterpart of check_seals + check_sink: what the real encryptor wrote, against the reference encoding.
    pub fn native_check(r: &SR, w: &Sink, aad: &[u8], cs: usize, key: &[u8], complete: bool) {
        if complete {
            let reference = native_reference(&r.data[..r.len], &r.sizes, aad, key);
            assert!(r.pos == r.len, "[C01,C02,C06,C08] native: on success the whole plaintext has been read and sealed");
            assert!(w.nat == reference, "[C01,C02,C06,C07,C08] native: the encryptor's output equals the documented format byte for byte (real ChaCha20-Poly1305; chunk i under nonce i; one chunk per read; last flag on the final chunk only)");
            assert!(w.flushed_len == w.nat.len(), "[C10,C12] native: on success everything written has been flushed");
            // and it decrypts back
            let mut back = Vec::new();
            let d = crate::decrypt::verif_dec::native_decrypt(&w.nat, &mut back, key, aad, cs);
            assert!(d && back == &r.data[..r.len], "[C01,C02] native: the real decryptor turns the output back into exactly the plaintext");
        } else {
            // a failed run: what was written is a prefix of what the fault-free run (same data, same read schedule) writes
            let mut r2 = SR { data: r.data, len: r.len, pos: 0, calls: 0, full: r.full, sched: r.sched, fault_at: NONE, fault_kind: 0, sizes: [0; MAXR], maxbuf: 0, faulted: false };
            let mut w2 = Sink::new();
            unsafe { SRC_POS = 0; NAT_LEN = 0; }
            let ok2 = encrypt_chunks(&mut r2, &mut w2, key, aad, cs as u32).is_ok();
            assert!(ok2, "[C10] native: the fault-free run succeeds");
            assert!(w.nat.len() <= w2.nat.len() && w.nat[..] == w2.nat[..w.nat.len()], "[C10] native: what has been written when the failure is reported is a prefix of the fault-free output");
        }
    }

    /// Post-check on the seal log: nonce_i = i; AAD_i = aad || BE32(last_i) || BE32(|chunk i|); the sealed
    /// plaintexts are, in order, exactly the bytes the source handed out, one chunk per read.
    /// `complete`: the run returned Ok, so the last flag must be set exactly once, at the end, and everything consumed.
    pub fn check_seals(r: &SR, aad: &[u8], cs: usize, complete: bool) -> usize {
        let n = unsafe { NSEAL };
        let mut src = 0usize; // plaintext offset of chunk i
        vrep!(6, i, {
            if i < n {
                let e = tget(i);
                assert!(e.nonce == i as u64, "[C06,C07,C01,C02] chunk i is sealed under nonce i (sequential from 0, each nonce once)");
                assert!(e.adlen == aad.len() + 8, "[C06] AAD = caller aad || last-chunk flag || length");
                vrep!(4, j, { if j < aad.len() { assert!(e.ad[j] == aad[j], "[C06,C02] AAD begins with the caller's aad (password-mode magic)"); } });
                let a = aad.len();
                assert!(e.ad[a] == 0 && e.ad[a + 1] == 0 && e.ad[a + 2] == 0 && (e.ad[a + 3] == 0 || e.ad[a + 3] == 1), "[C06] AAD last-chunk flag is BE32 0 or 1");
                if complete {
                    let last: u8 = if i + 1 == n { 1 } else { 0 };
                    assert!(e.ad[a + 3] == last, "[C06,C01,C02,C03] last-chunk flag is 1 on the final chunk and only there");
                }
                assert!(e.ad[a + 4] == 0 && e.ad[a + 5] == 0 && e.ad[a + 6] == 0 && e.ad[a + 7] as usize == e.ptlen, "[C06] AAD length field = BE32(chunk plaintext length)");
                assert!(e.ptlen <= cs, "[C06,C09,C11] chunk plaintext length <= chunk size");
                if i + 1 < n { assert!(e.ptlen >= 1, "[C06] only the final chunk may be empty"); }
                if i < MAXR { assert!(e.ptlen == r.sizes[i], "[C06,C01,C02] chunk i carries exactly the bytes of read i"); }
                vrep!(3, j, { if j < e.ptlen { assert!(e.pt[j] == r.data[src + j], "[C01,C02,C06] sealed plaintext is the next bytes of the source, in order"); } });
                src += e.ptlen;
            }
        });
        if complete {
            assert!(n >= 1, "[C06,C01,C02] at least one (possibly empty) final chunk");
            assert!(src == r.len && r.pos == r.len, "[C01,C02,C06,C08] on success the whole plaintext has been sealed (so the length is 32 per chunk + |P|)");
        }
        n
    }
    pub fn check_sink(w: &Sink, n: usize, plen: usize, complete: bool) {
        assert!(!w.limit, "[LIMIT] write-call structure outside what this harness models");
        assert!(!w.mismatch, "[C06,C08,C01,C02] every byte written equals the documented record layout: BE64(chunk number) || BE32(last) || BE32(length) || ciphertext || tag");
        assert!(!w.beyond, "[C06,C08,C10] nothing is written beyond the records of the chunks sealed so far");
        if complete {
            assert!(w.ci == n && w.wi == 0, "[C06,C10] on success every record has been written completely");
            assert!(w.len == 32 * n + plen, "[C08] ciphertext length = 32 per chunk + plaintext length");
            assert!(w.flushed_len == w.len, "[C10,C12] on success everything written has been flushed");
        }
    }

    fn enc_format(cs: usize, maxlen: usize, pass_mode: bool, full_reads: bool) -> (usize, usize) {
        let data: [u8; MAXP] = kani::any();
        let len: usize = kani::any();
        kani::assume(len <= maxlen);
        let magic = PASS_FILE_MAGIC;
        let aad: &[u8] = if pass_mode { &magic } else { &[] };
        unsafe { AADLEN = aad.len(); }
        let mut r = SR::new(data, len, full_reads);
        let mut w = Sink::new();
        let key = [0x11u8; 32];
        let res = encrypt_chunks(&mut r, &mut w, &key, aad, cs as u32);
        assert!(res.is_ok(), "[C01,C02,C10] fault-free encryption succeeds for every plaintext and read partition");
        if native() {
            native_check(&r, &w, aad, cs, &key, true);
            assert!(r.maxbuf <= cs, "[C11,C09] native: no read asks for more than one chunk");
            assert!(unsafe { MAX_LAG } <= 2 * cs, "[C11] native: at most two chunks of input consumed beyond what has been written");
            core::mem::forget(res);
            return (len, 0);
        }
        let n = check_seals(&r, aad, cs, true);
        check_sink(&w, n, len, true);
        assert!(r.maxbuf <= cs, "[C11,C09] no read asks for more than one chunk");
        assert!(unsafe { MAX_AEAD_IN } <= cs, "[C11] no AEAD call on more than one chunk");
        assert!(unsafe { MAX_LAG } <= 2 * cs, "[C11] at most two chunks of input consumed beyond what has been written");
        core::mem::forget(res);
        (len, n)
    }

    // ------------------------------------------------------------------------------------------
    /// C01/C06/C07/C08/C11 (framing, fault-free, key mode: aad empty): cs=2, every plaintext of 0..=3 bytes,
    /// EVERY read partition.
    #[kani::proof]
    #[kani::stub(crate::chapoly_encrypt_noise, seal_model)]
    #[kani::stub(crate::verif_common::native, crate::verif_common::native_false)]
    #[kani::unwind(4)]
    pub fn enc_format_cs2_key() {
        let (len, n) = enc_format(2, 3, false, false);
        kani::cover!(len == 0 && n == 1);
        kani::cover!(len == 3 && n == 3);
        kani::cover!(len == 3 && n == 2);
        kani::cover!(len == 2 && n == 1);
    }

    /// Same in password mode (aad = 65 67 6B 20).
    #[kani::proof]
    #[kani::stub(crate::chapoly_encrypt_noise, seal_model)]
    #[kani::stub(crate::verif_common::native, crate::verif_common::native_false)]
    #[kani::unwind(4)]
    pub fn enc_format_cs2_pass() {
        let (len, n) = enc_format(2, 3, true, false);
        kani::cover!(len == 0 && n == 1);
        kani::cover!(len == 3 && n == 3);
        kani::cover!(len == 2 && n == 1);
    }

    /// cs=1, up to 4 bytes => up to 4 chunks (deep enough for "collect then write" to exceed the streaming bound).
    #[kani::proof]
    #[kani::stub(crate::chapoly_encrypt_noise, seal_model)]
    #[kani::stub(crate::verif_common::native, crate::verif_common::native_false)]
    #[kani::unwind(5)]
    pub fn enc_format_cs1() {
        let (len, n) = enc_format(1, 4, false, true);
        kani::cover!(len == 4 && n == 4);
        kani::cover!(len == 0 && n == 1);
    }

    /// cs=3, plaintext 0..=5, every read partition (thorough).
    #[kani::proof]
    #[kani::stub(crate::chapoly_encrypt_noise, seal_model)]
    #[kani::stub(crate::verif_common::native, crate::verif_common::native_false)]
    #[kani::unwind(6)]
    pub fn enc_format_cs3_key() {
        let (len, n) = enc_format(3, 5, false, false);
        kani::cover!(len == 5 && n == 5);
        kani::cover!(len == 3 && n == 1);
        kani::cover!(len == 4 && n == 2);
    }
    #[kani::proof]
    #[kani::stub(crate::chapoly_encrypt_noise, seal_model)]
    #[kani::stub(crate::verif_common::native, crate::verif_common::native_false)]
    #[kani::unwind(6)]
    pub fn enc_format_cs3_pass() {
        let (len, n) = enc_format(3, 5, true, false);
        kani::cover!(len == 5 && n == 5);
        kani::cover!(len == 3 && n == 1);
    }

    // ------------------------------------------------------------------------------------------
    /// C10 (encrypt side): one fault at a solver-chosen read / write / flush call, or an Ok(0) write.
    #[kani::proof]
    #[kani::stub(crate::chapoly_encrypt_noise, seal_model)]
    #[kani::stub(crate::verif_common::native, crate::verif_common::native_false)]
    #[kani::unwind(4)]
    pub fn enc_faults_cs2() {
        let data: [u8; MAXP] = kani::any();
        let len: usize = kani::any();
        kani::assume(len <= 3);
        unsafe { AADLEN = 0; }
        let mut r = SR::new(data, len, true);
        let mut w = Sink::new();
        let which: u8 = kani::any();
        kani::assume(which <= 3);
        let at: usize = kani::any();
        kani::assume(at <= 4);
        let kind: u8 = kani::any();
        kani::assume(kind <= 3);
        match which {
            0 => { r.fault_at = at; r.fault_kind = kind; }
            1 => { w.wfault_at = at; w.fault_kind = kind; }
            2 => { w.ffault_at = at; w.fault_kind = kind; }
            _ => { w.zero_at = at; }
        }
        let key = [0x11u8; 32];
        let res = encrypt_chunks(&mut r, &mut w, &key, &[], 2);
        let fired = r.faulted || w.faulted;
        let ok = res.is_ok();
        match &res {
            Ok(()) => { assert!(!fired || (which == 1 && kind == 0), "[C10] success only if no fault fired, or an interrupted write that std retries"); }
            Err(EncryptError::IORead(_)) => { assert!(r.faulted && !w.faulted, "[C10] IORead reported only for a failing read"); }
            Err(EncryptError::IOWrite(_)) => { assert!(w.faulted && !r.faulted, "[C10] IOWrite reported only for a failing write or flush"); }
            Err(_) => { assert!(false, "[C10] an I/O fault is reported as IORead/IOWrite, nothing else fails"); }
        }
        if native() {
            assert!(!w.after_fault, "[C10] native: nothing is written or flushed after a reported failure");
            native_check(&r, &w, &[], 2, &key, ok);
            core::mem::forget(res);
            return;
        }
        let n = check_seals(&r, &[], 2, ok);
        check_sink(&w, n, len, ok);
        assert!(!w.after_fault, "[C10] nothing is written or flushed after a reported failure");
        kani::cover!(ok && fired);
        kani::cover!(matches!(res, Err(EncryptError::IORead(_))) && w.len > 0);
        kani::cover!(matches!(res, Err(EncryptError::IOWrite(_))) && which == 2);
        kani::cover!(matches!(res, Err(EncryptError::IOWrite(_))) && which == 3);
        kani::cover!(ok && !fired && len == 3);
        core::mem::forget(res);
    }

    /// C10/C01/C02: a sink that accepts only a solver-chosen part of each write (every write_all split once at an arbitrary
    /// point; std's real write_all loop): result and bytes unchanged.
    #[kani::proof]
    #[kani::stub(crate::chapoly_encrypt_noise, seal_model)]
    #[kani::stub(crate::verif_common::native, crate::verif_common::native_false)]
    #[kani::unwind(4)]
    pub fn enc_short_writes_cs1() {
        let data: [u8; MAXP] = kani::any();
        let len: usize = kani::any();
        kani::assume(len <= 1);
        unsafe { AADLEN = 0; }
        let mut r = SR::new(data, len, true);
        let mut w = ShortSink::new();
        let key = [0x11u8; 32];
        let res = encrypt_chunks(&mut r, &mut w, &key, &[], 1);
        assert!(!w.limit, "[LIMIT] write-call structure outside what this harness models (a call > 20 bytes)");
        assert!(res.is_ok(), "[C01,C02,C10] partial writes are harmless: encryption succeeds");
        if native() {
            let reference = native_reference(&r.data[..r.len], &r.sizes, &[], &key);
            assert!(w.nat == reference, "[C10,C01,C02,C06] native: with partial writes the byte stream still equals the documented format (no byte lost or repeated)");
            assert!(w.flushed_len == w.nat.len(), "[C10] native: everything flushed");
            core::mem::forget(res);
            return;
        }
        let n = check_seals(&r, &[], 1, true);
        assert!(!w.mismatch && !w.beyond, "[C10,C01,C02,C06] with partial writes the byte stream still equals the documented layout (no byte lost or repeated)");
        assert!(n == 1 && w.pos == w.exp_len && w.pos == 32 + len, "[C10,C01,C02,C08] with partial writes every record is still written completely");
        assert!(w.flushed_len == w.pos, "[C10] everything flushed");
        kani::cover!(w.splits >= 2);
        kani::cover!(len == 1 && w.splits == 0);
        core::mem::forget(res);
    }
}

// H-HDR (encrypt side): the REAL key_encrypt / pass_encrypt with Noise, HKDF, scrypt, the RNG and the chunk loop
// replaced by recorders: what goes into the header, what is derived from what, what is passed down, what is
// written when.
#[allow(dead_code, static_mut_refs, unused_imports, unused_variables, unused_mut)]
pub(crate) mod verif_hdr_enc {
    use super::*;
    use crate::errors::NoiseError;
    use crate::NoiseEncryptMsg;
    use std::io::{Read, Write};

    // ---- sink / source -----------------------------------------------------------------------
    pub static mut W_LEN: usize = 0;
    pub static mut W_WRITES: usize = 0;
    pub static mut W_FLUSHES: usize = 0;
    pub static mut W_FLUSHED_LEN: usize = 0;
    pub struct HSink { pub out: [u8; 140], pub fail_at: usize, pub short: bool }
    impl HSink {
        /// append `d` bytes of `buf` at the running offset, for the header shapes (concrete offsets and lengths)
        fn put(&mut self, buf: &[u8], d: usize) -> bool {
            unsafe {
                match (W_LEN, d) {
                    (0, 4) => self.out[0..4].copy_from_slice(&buf[..4]),
                    (0, 3) => self.out[0..3].copy_from_slice(&buf[..3]),
                    (3, 1) => self.out[3..4].copy_from_slice(&buf[..1]),
                    (4, 128) => self.out[4..132].copy_from_slice(&buf[..128]),
                    (4, 127) => self.out[4..131].copy_from_slice(&buf[..127]),
                    (131, 1) => self.out[131..132].copy_from_slice(&buf[..1]),
                    (4, 32) => self.out[4..36].copy_from_slice(&buf[..32]),
                    (4, 31) => self.out[4..35].copy_from_slice(&buf[..31]),
                    (35, 1) => self.out[35..36].copy_from_slice(&buf[..1]),
                    (0, 132) => self.out[0..132].copy_from_slice(&buf[..132]),
                    (0, 131) => self.out[0..131].copy_from_slice(&buf[..131]),
                    (0, 36) => self.out[0..36].copy_from_slice(&buf[..36]),
                    (0, 35) => self.out[0..35].copy_from_slice(&buf[..35]),
                    _ => return false,
                }
                W_LEN += d;
            }
            true
        }
    }
    pub static mut W_LIMIT: bool = false;
    impl Write for HSink {
        /// accepts everything offered, or - when `short` - one byte less (the rest on the next call): a conforming sink.
        /// std's real write_all loop runs on top of it.
        fn write(&mut self, buf: &[u8]) -> std::io::Result<usize> {
            unsafe {
                let c = W_WRITES;
                W_WRITES += 1;
                if c == self.fail_at { return Err(std::io::Error::from(std::io::ErrorKind::Other)); }
                if buf.is_empty() { return Ok(0); }
                let d = if self.short && buf.len() > 1 { buf.len() - 1 } else { buf.len() };
                if !self.put(buf, d) { W_LIMIT = true; }
                Ok(d)
            }
        }
        /// std's write_all loop, written out for a sink that needs at most two calls per request (loop-free)
        fn write_all(&mut self, buf: &[u8]) -> std::io::Result<()> {
            if buf.is_empty() { return Ok(()); }
            let k = self.write(buf)?;
            if k == buf.len() { return Ok(()); }
            if k == 0 { return Err(std::io::Error::from(std::io::ErrorKind::WriteZero)); }
            let k2 = self.write(&buf[k..])?;
            if k + k2 == buf.len() { Ok(()) } else { Err(std::io::Error::from(std::io::ErrorKind::WriteZero)) }
        }
        fn flush(&mut self) -> std::io::Result<()> { unsafe { W_FLUSHES += 1; W_FLUSHED_LEN = W_LEN; } Ok(()) }
    }
    pub struct NoSrc;
    impl Read for NoSrc { fn read(&mut self, _b: &mut [u8]) -> std::io::Result<usize> { unsafe { SRC_READS += 1; } Ok(0) } }
    pub static mut SRC_READS: usize = 0;

    // ---- recorders ---------------------------------------------------------------------------
    #[derive(Clone, Copy)]
    pub struct NoiseArgs { n: usize, s: [u8; 32], spk: [u8; 32], r: [u8; 32], e_some: bool, epk_some: bool, e: [u8; 32], epk: [u8; 32], prologue: [u8; 4], plen: usize, payload: [u8; 32],
                           w_writes_at_call: usize }
    pub static mut NA: NoiseArgs = NoiseArgs { n: 0, s: [0; 32], spk: [0; 32], r: [0; 32], e_some: false, epk_some: false, e: [0; 32], epk: [0; 32], prologue: [0; 4], plen: 0, payload: [0; 32], w_writes_at_call: 0 };
    pub static mut N_FAIL: bool = false;
    pub static mut N_CT: [u8; 128] = [0; 128];
    pub static mut N_HH: [u8; 32] = [0; 32];
    pub fn noise_encrypt_rec(sender: &PrivateKey, sender_public: &PublicKey, recipient: &PublicKey, ephemeral: Option<&PrivateKey>,
                             ephemeral_public: Option<&PublicKey>, prologue: &[u8], payload_key: &PayloadKey) -> Result<NoiseEncryptMsg, NoiseError> {
        unsafe {
            NA.n += 1;
            NA.s.copy_from_slice(sender.as_bytes());
            NA.spk.copy_from_slice(sender_public.as_bytes());
            NA.r.copy_from_slice(recipient.as_bytes());
            NA.e_some = ephemeral.is_some();
            NA.epk_some = ephemeral_public.is_some();
            if let Some(e) = ephemeral { NA.e.copy_from_slice(e.as_bytes()); }
            if let Some(e) = ephemeral_public { NA.epk.copy_from_slice(e.as_bytes()); }
            NA.plen = prologue.len();
            if prologue.len() == 4 { NA.prologue.copy_from_slice(prologue); }
            NA.payload.copy_from_slice(payload_key.as_bytes());
            NA.w_writes_at_call = W_WRITES + W_FLUSHES;
            if N_FAIL { return Err(NoiseError::DhError); }
            let ct: [u8; 128] = kani::any();
            let hh: [u8; 32] = kani::any();
            N_CT = ct;
            N_HH = hh;
            Ok(NoiseEncryptMsg { ciphertext: ct.to_vec(), handshake_hash: hh })
        }
    }
    pub static mut HK: (usize, usize, [u8; 32], usize, [u8; 32], usize, usize) = (0, 0, [0; 32], 0, [0; 32], 0, 0); // n, saltlen, ikm, ikmlen, info, infolen, len
    pub static mut HK_OUT: [u8; 32] = [0; 32];
    pub fn hkdf_rec(salt: &[u8], ikm: &[u8], info: &[u8], len: usize) -> Vec<u8> {
        unsafe {
            HK.0 += 1;
            HK.1 = salt.len();
            HK.3 = ikm.len();
            if ikm.len() == 32 { HK.2.copy_from_slice(ikm); }
            HK.5 = info.len();
            if info.len() == 32 { HK.4.copy_from_slice(info); }
            HK.6 = len;
            let o: [u8; 32] = kani::any();
            HK_OUT = o;
            o.to_vec()
        }
    }
    pub static mut EC: (usize, [u8; 32], usize, [u8; 4], usize, u32, usize, usize) = (0, [0; 32], 0, [0; 4], 0, 0, 0, 0); // n, key, keylen, aad, aadlen, cs, w_len_at_call, flushed_len_at_call
    pub static mut EC_FAIL: bool = false;
    pub fn encrypt_chunks_rec<T: Read, U: Write>(plaintext: &mut T, ciphertext: &mut U, key: &[u8], aad: &[u8], chunk_size: u32) -> Result<(), EncryptError> {
        unsafe {
            EC.0 += 1;
            EC.2 = key.len();
            if key.len() == 32 { EC.1.copy_from_slice(key); }
            EC.4 = aad.len();
            if aad.len() == 4 { EC.3.copy_from_slice(aad); }
            EC.5 = chunk_size;
            EC.6 = W_LEN;
            EC.7 = W_FLUSHED_LEN;
        }
        // the chunk loop reads the source it is given and writes to the sink it is given
        let mut b = [0u8; 1];
        let _ = plaintext.read(&mut b);
        if unsafe { EC_FAIL } { return Err(EncryptError::UnexpectedData); }
        Ok(())
    }
    pub static mut RNG_N: usize = 0;
    pub static mut RNG_LEN: usize = 0;
    pub static mut RNG_OUT: [u8; 32] = [0; 32];
    pub fn rng_rec(len: usize) -> Vec<u8> {
        unsafe {
            RNG_N += 1;
            RNG_LEN = len;
            let o: [u8; 32] = kani::any();
            RNG_OUT = o;
            if len == 32 { o.to_vec() } else { vec![0u8; len] }
        }
    }

    /// C01(b)/C06/C07/C08/C05(3)/C13: key_encrypt.
    #[kani::proof]
    #[kani::stub(crate::noise_encrypt, noise_encrypt_rec)]
    #[kani::stub(crate::hkdf_sha256, hkdf_rec)]
    #[kani::stub(crate::encrypt::encrypt_chunks, encrypt_chunks_rec)]
    #[kani::stub(crate::secure_random, rng_rec)]
    #[kani::unwind(130)]
    pub fn hdr_key_encrypt() {
        let (s, spk, r, e, epk, pk): ([u8; 32], [u8; 32], [u8; 32], [u8; 32], [u8; 32], [u8; 32]) = (kani::any(), kani::any(), kani::any(), kani::any(), kani::any(), kani::any());
        let fresh: bool = kani::any(); // None for ephemeral / payload key (what the CLI does)
        let nfail: bool = kani::any();
        let cfail: bool = kani::any();
        unsafe { N_FAIL = nfail; EC_FAIL = cfail; }
        let sender = PrivateKey::try_from(&s[..]).unwrap();
        let sender_public = PublicKey::try_from(&spk[..]).unwrap();
        let recipient = PublicKey::try_from(&r[..]).unwrap();
        let eph = PrivateKey::try_from(&e[..]).unwrap();
        let eph_pub = PublicKey::try_from(&epk[..]).unwrap();
        let payload = PayloadKey::new(&pk);
        let mut src = NoSrc;
        let mut w = HSink { out: [0; 140], fail_at: usize::MAX, short: kani::any() };
        let res = if fresh {
            key_encrypt(&mut src, &mut w, &sender, &sender_public, &recipient, None, None, None, AsymFileFormat::V1)
        } else {
            key_encrypt(&mut src, &mut w, &sender, &sender_public, &recipient, Some(&eph), Some(&eph_pub), Some(&payload), AsymFileFormat::V1)
        };
        unsafe {
            assert!(!W_LIMIT, "[LIMIT] header write-call structure outside what this harness models");
            assert!(NA.n == 1, "[C06,C07] exactly one handshake per file");
            assert!(NA.s == s && NA.spk == spk && NA.r == r, "[C01,C02,C05] the handshake is run with the caller's sender key pair and recipient key");
            assert!(NA.plen == 4 && NA.prologue == [0x65, 0x67, 0x6b, 0x10], "[C06] the handshake prologue is the key-mode magic 65 67 6B 10");
            assert!(NA.w_writes_at_call == 0, "[C13,C05] nothing is written or flushed before the key exchange has succeeded");
            if fresh {
                assert!(!NA.e_some && !NA.epk_some, "[C07] without a caller-supplied ephemeral key the handshake generates its own");
                assert!(RNG_N == 1 && RNG_LEN == 32 && NA.payload == RNG_OUT, "[C07] the payload key is a fresh 32-byte draw from the CSPRNG, used for nothing else");
            } else {
                assert!(NA.e_some && NA.epk_some && NA.e == e && NA.epk == epk && NA.payload == pk && RNG_N == 0, "[C06] caller-supplied ephemeral and payload keys are used as given");
            }
            if nfail {
                assert!(matches!(res, Err(EncryptError::Other(_))), "[C05] a refused key exchange is reported as an error");
                assert!(W_WRITES == 0 && W_FLUSHES == 0 && EC.0 == 0 && SRC_READS == 0, "[C05,C13] after a refused key exchange nothing is written, flushed or read");
            } else {
                assert!(EC.0 == 1, "[C01,C02] the chunk loop runs once");
                assert!(EC.6 == 132 && EC.7 == 132, "[C06,C08,C13,C11,C10] the complete 132-byte header is written and flushed before the first chunk, also through a sink that accepts a write only partly (output is produced incrementally, nothing lost)");
                let mut ok = w.out[0] == 0x65 && w.out[1] == 0x67 && w.out[2] == 0x6b && w.out[3] == 0x10;
                let mut j = 0;
                while j < 128 { if w.out[4 + j] != N_CT[j] { ok = false; } j += 1; }
                assert!(ok, "[C06,C08] header = 65 67 6B 10 || the 128-byte Noise handshake message, nothing else");
                assert!(HK.0 == 1 && HK.1 == 0 && HK.3 == 32 && HK.2 == NA.payload && HK.5 == 32 && HK.4 == N_HH && HK.6 == 32, "[C06,C01,C02] file key = HKDF-SHA256(salt empty, ikm = payload key, info = handshake hash, 32)");
                assert!(EC.2 == 32 && EC.1 == HK_OUT && EC.4 == 0 && EC.5 == 65536, "[C06,C01,C02,C11] chunks are sealed under the file key, empty aad, chunk size 65536");
                assert!(SRC_READS == 1, "[C01,C02] the chunk loop reads the caller's plaintext source");
                assert!(res.is_ok() == !cfail, "[C10,C12] the result of the chunk loop is the result of key_encrypt");
            }
        }
        kani::cover!(fresh && !nfail && res.is_ok());
        kani::cover!(!fresh && nfail);
        core::mem::forget(res); core::mem::forget(sender); core::mem::forget(eph); core::mem::forget(payload);
    }

    // ---- password mode -----------------------------------------------------------------------
    pub static mut SC: (usize, [u8; 4], usize, [u8; 32], usize, usize, usize, usize, usize, usize) = (0, [0; 4], 0, [0; 32], 0, 0, 0, 0, 0, 0); // n, pw, pwlen, salt, saltlen, N, r, p, dklen, writes_at_call
    pub static mut SC_OUT: [u8; 32] = [0; 32];
    pub fn scrypt_rec(password: &[u8], salt: &[u8], n: usize, r: usize, p: usize, dk_len: usize) -> Vec<u8> {
        unsafe {
            SC.0 += 1;
            SC.2 = password.len();
            let mut j = 0;
            while j < 4 { if j < password.len() { SC.1[j] = password[j]; } j += 1; }
            SC.4 = salt.len();
            if salt.len() == 32 { SC.3.copy_from_slice(salt); }
            SC.5 = n; SC.6 = r; SC.7 = p; SC.8 = dk_len;
            SC.9 = W_WRITES + W_FLUSHES;
            let o: [u8; 32] = kani::any();
            SC_OUT = o;
            o.to_vec()
        }
    }

    /// C02/C06/C08: pass_encrypt.
    #[kani::proof]
    #[kani::stub(crate::scrypt::scrypt, scrypt_rec)]
    #[kani::stub(crate::encrypt::encrypt_chunks, encrypt_chunks_rec)]
    #[kani::unwind(130)]
    pub fn hdr_pass_encrypt() {
        let pwb: [u8; 4] = kani::any();
        let pl: usize = kani::any();
        kani::assume(pl <= 4);
        let salt: [u8; 32] = kani::any();
        let cfail: bool = kani::any();
        unsafe { EC_FAIL = cfail; }
        let mut src = NoSrc;
        let mut w = HSink { out: [0; 140], fail_at: usize::MAX, short: kani::any() };
        let res = pass_encrypt(&mut src, &mut w, &pwb[..pl], salt, PassFileFormat::V1);
        unsafe {
            assert!(!W_LIMIT, "[LIMIT] header write-call structure outside what this harness models");
            assert!(SC.0 == 1 && SC.2 == pl && SC.4 == 32 && SC.3 == salt, "[C02,C06] the key is scrypt(password, the caller's salt, ...)");
            let mut j = 0;
            while j < 4 { if j < pl { assert!(SC.1[j] == pwb[j], "[C02] scrypt gets the password bytes unchanged"); } j += 1; }
            assert!(SC.5 == 32768 && SC.6 == 8 && SC.7 == 1 && SC.8 == 32, "[C02,C06,C09] scrypt parameters N=32768, r=8, p=1, 32-byte key");
            assert!(EC.0 == 1 && EC.6 == 36 && EC.7 == 36, "[C06,C08,C11,C10] the complete 36-byte header is written and flushed before the first chunk, also through a sink that accepts a write only partly (output is produced incrementally, nothing lost)");
            let mut ok = w.out[0] == 0x65 && w.out[1] == 0x67 && w.out[2] == 0x6b && w.out[3] == 0x20;
            let mut j = 0;
            while j < 32 { if w.out[4 + j] != salt[j] { ok = false; } j += 1; }
            assert!(ok, "[C06,C08] header = 65 67 6B 20 || salt, nothing else");
            assert!(EC.2 == 32 && EC.1 == SC_OUT, "[C02,C06] chunks are sealed under the scrypt key");
            assert!(EC.4 == 4 && EC.3 == [0x65, 0x67, 0x6b, 0x20] && EC.5 == 65536, "[C02,C06] chunk aad = the password-mode magic, chunk size 65536");
            assert!(res.is_ok() == !cfail, "[C10,C12] the result of the chunk loop is the result of pass_encrypt");
        }
        kani::cover!(pl == 0 && res.is_ok());
        kani::cover!(pl == 4 && res.is_err());
        core::mem::forget(res);
    }

    /// C10/C13: a failing header write or flush surfaces as IOWrite and stops everything.
    #[kani::proof]
    #[kani::stub(crate::noise_encrypt, noise_encrypt_rec)]
    #[kani::stub(crate::hkdf_sha256, hkdf_rec)]
    #[kani::stub(crate::encrypt::encrypt_chunks, encrypt_chunks_rec)]
    #[kani::stub(crate::secure_random, rng_rec)]
    #[kani::unwind(130)]
    pub fn hdr_key_encrypt_write_fault() {
        let (s, spk, r): ([u8; 32], [u8; 32], [u8; 32]) = (kani::any(), kani::any(), kani::any());
        let at: usize = kani::any();
        kani::assume(at <= 1);
        let sender = PrivateKey::try_from(&s[..]).unwrap();
        let sender_public = PublicKey::try_from(&spk[..]).unwrap();
        let recipient = PublicKey::try_from(&r[..]).unwrap();
        let mut src = NoSrc;
        let mut w = HSink { out: [0; 140], fail_at: at, short: false };
        let res = key_encrypt(&mut src, &mut w, &sender, &sender_public, &recipient, None, None, None, AsymFileFormat::V1);
        assert!(matches!(res, Err(EncryptError::IOWrite(_))), "[C10] a failing header write is reported as IOWrite");
        unsafe { assert!(EC.0 == 0 && SRC_READS == 0, "[C10] nothing further happens after the failure"); }
        core::mem::forget(res); core::mem::forget(sender);
    }
}
