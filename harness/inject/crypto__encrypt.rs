// Injected (cfg(kani) only) at the end of src/crypto/src/encrypt.rs: child module of `encrypt`,
// sees the private `encrypt_chunks`, PROLOGUE, PASS_FILE_MAGIC, read_err/write_err.
//
// H-ENC: the REAL encrypt_chunks over every plaintext / read partition / fault within the bound,
// AEAD = ideal table (verif_common::seal_model).  Output is compared byte for byte with an
// executable transcription of docs/file-format.txt ("model") built from the seal log.
//
// Cost notes (measured): harness code is loop-free (vrep!), never compares arrays with `==`
// (memcmp loop), the sink compares each write call against the model at concrete offsets and
// overrides write_all (std's loop re-inlines the sink body once per unwinding otherwise).

#[allow(dead_code, static_mut_refs, unused_imports, unused_variables, unused_mut)]
pub(crate) mod verif_enc {
    use super::*;
    use crate::verif_common::*;
    use crate::vrep;
    use std::io::{Read, Write};

    pub fn prologue() -> [u8; 4] { PROLOGUE }
    pub fn pass_magic() -> [u8; 4] { PASS_FILE_MAGIC }

    pub const MAXP: usize = 5; // plaintext buffer
    pub const MAXR: usize = 7; // read calls logged
    pub const NONE: usize = usize::MAX;

    pub static mut SRC_POS: usize = 0; // plaintext bytes consumed so far
    pub static mut PAYLOAD_DONE: usize = 0; // plaintext bytes of the chunks whose record is completely in the sink
    pub static mut MAX_LAG: usize = 0; // max over read calls of (consumed - PAYLOAD_DONE)
    pub static mut AADLEN: usize = 0;

    /// Scripted plaintext source: every call returns a solver-chosen count 1..=min(buf, remaining)
    /// (or everything when `full`), 0 at EOF, or a fault at call index `fault_at`.
    pub struct SR { pub data: [u8; MAXP], pub len: usize, pub pos: usize, pub calls: usize, pub full: bool,
                    pub fault_at: usize, pub fault_kind: u8, pub sizes: [usize; MAXR], pub maxbuf: usize, pub faulted: bool }
    impl SR {
        pub fn new(data: [u8; MAXP], len: usize, full: bool) -> Self {
            SR { data, len, pos: 0, calls: 0, full, fault_at: NONE, fault_kind: 0, sizes: [0; MAXR], maxbuf: 0, faulted: false }
        }
    }
    impl Read for SR {
        fn read(&mut self, buf: &mut [u8]) -> std::io::Result<usize> {
            let c = self.calls;
            self.calls += 1;
            if buf.len() > self.maxbuf { self.maxbuf = buf.len(); }
            unsafe {
                let lag = SRC_POS - PAYLOAD_DONE;
                if lag > MAX_LAG { MAX_LAG = lag; }
            }
            if c == self.fault_at { self.faulted = true; return Err(io_err(self.fault_kind)); }
            let rem = self.len - self.pos;
            if rem == 0 || buf.len() == 0 { return Ok(0); }
            let maxk = if rem < buf.len() { rem } else { buf.len() };
            let k: usize = if self.full { maxk } else { kani::any() };
            kani::assume(k >= 1 && k <= maxk && k <= MAXCS);
            vrep!(3, j, { if j < k { buf[j] = self.data[self.pos + j]; } });
            if c < MAXR { self.sizes[c] = k; }
            self.pos += k;
            unsafe { SRC_POS = self.pos; }
            Ok(k)
        }
    }

    /// first 16 bytes of `buf` == BE64(idx) || 8 bytes authenticated in the AAD (flag, length)
    fn hdr_ok(e: &Entry, idx: usize, a: usize, buf: &[u8]) -> bool {
        let ib = (idx as u64).to_be_bytes();
        let mut ok = true;
        vrep!(8, j, { if buf[j] != ib[j] { ok = false; } });
        vrep!(8, j, { if buf[8 + j] != e.ad[a + j] { ok = false; } });
        ok
    }
    /// `buf` == ct || tag of entry e
    fn body_ok(e: &Entry, buf: &[u8]) -> bool {
        let n = e.ptlen;
        let t = e.tag.to_le_bytes();
        let mut ok = true;
        vrep!(3, j, { if j < n && buf[j] != e.ct[j] { ok = false; } });
        vrep!(16, j, { if buf[n + j] != t[j] { ok = false; } });
        ok
    }
    /// byte `wi` of the record the format prescribes for the `idx`-th sealed chunk (general form)
    pub fn record_byte(e: &Entry, idx: usize, a: usize, wi: usize) -> u8 {
        if wi < 8 { (idx as u64).to_be_bytes()[wi] }
        else if wi < 16 { e.ad[a + wi - 8] }
        else if wi < 16 + e.ptlen { e.ct[wi - 16] }
        else { e.tag.to_le_bytes()[wi - 16 - e.ptlen] }
    }

    /// Comparing sink. The stream the format model prescribes for the seal log is, for each logged seal i,
    ///   BE64(i) || flag_i || len_i || ct_i || tag_i     (flag_i, len_i = the 8 bytes authenticated in AAD_i).
    /// Each write call is compared with that stream at the cursor (record `ci`, offset `wi`); no copy of the
    /// stream is kept. Modelled call structures: header (16) then body (len+16), or one call per record;
    /// anything else sets `limit` (=> inconclusive, never an alarm). Accepts whole writes; can fail or return
    /// Ok(0) at a chosen write / flush call. Partial writes: ShortSink.
    pub struct Sink { pub ci: usize, pub wi: usize, pub len: usize, pub writes: usize, pub flushes: usize, pub flushed_len: usize,
                      pub wfault_at: usize, pub ffault_at: usize, pub fault_kind: u8, pub zero_at: usize,
                      pub mismatch: bool, pub beyond: bool, pub limit: bool, pub faulted: bool, pub after_fault: bool, pub interrupted_once: bool }
    impl Sink {
        pub fn new() -> Self {
            Sink { ci: 0, wi: 0, len: 0, writes: 0, flushes: 0, flushed_len: 0, wfault_at: NONE, ffault_at: NONE,
                   fault_kind: 3, zero_at: NONE, mismatch: false, beyond: false, limit: false, faulted: false, after_fault: false, interrupted_once: false }
        }
        fn take(&mut self, buf: &[u8]) {
            let a = unsafe { AADLEN };
            let n = unsafe { NSEAL };
            if self.ci >= n { self.beyond = true; return; }
            let e = tget(self.ci);
            let k = buf.len();
            if self.wi == 0 && k == 16 {
                if !hdr_ok(&e, self.ci, a, buf) { self.mismatch = true; }
                self.wi = 16;
            } else if self.wi == 16 && k == e.ptlen + 16 {
                if !body_ok(&e, buf) { self.mismatch = true; }
                self.wi = 0;
                self.ci += 1;
                unsafe { PAYLOAD_DONE += e.ptlen; }
            } else if self.wi == 0 && k == 32 + e.ptlen {
                if !hdr_ok(&e, self.ci, a, buf) { self.mismatch = true; }
                if !body_ok(&e, &buf[16..]) { self.mismatch = true; }
                self.ci += 1;
                unsafe { PAYLOAD_DONE += e.ptlen; }
            } else {
                self.limit = true;
            }
        }
    }
    impl Write for Sink {
        fn write(&mut self, buf: &[u8]) -> std::io::Result<usize> {
            let c = self.writes;
            self.writes += 1;
            if self.faulted && !self.interrupted_once { self.after_fault = true; }
            if c == self.wfault_at {
                self.faulted = true;
                if self.fault_kind == 0 { self.interrupted_once = true; }
                return Err(io_err(self.fault_kind));
            }
            if c == self.zero_at { self.faulted = true; return Ok(0); }
            self.take(buf);
            self.len += buf.len();
            Ok(buf.len())
        }
        /// std's write_all specialised to this sink (every write accepts everything or fails; at most one fault
        /// per run): one call, plus the one retry std makes after ErrorKind::Interrupted. Loop-free.
        fn write_all(&mut self, buf: &[u8]) -> std::io::Result<()> {
            if buf.is_empty() { return Ok(()); }
            match self.write(buf) {
                Ok(0) => Err(std::io::Error::from(std::io::ErrorKind::WriteZero)),
                Ok(_) => Ok(()),
                Err(e) => {
                    if e.kind() == std::io::ErrorKind::Interrupted {
                        match self.write(buf) {
                            Ok(0) => Err(std::io::Error::from(std::io::ErrorKind::WriteZero)),
                            Ok(_) => Ok(()),
                            Err(e2) => Err(e2),
                        }
                    } else { Err(e) }
                }
            }
        }
        fn flush(&mut self) -> std::io::Result<()> {
            let c = self.flushes;
            self.flushes += 1;
            if self.faulted && !self.interrupted_once { self.after_fault = true; }
            if c == self.ffault_at { self.faulted = true; return Err(io_err(self.fault_kind)); }
            self.flushed_len = self.len;
            Ok(())
        }
    }

    /// A sink that accepts a solver-chosen part (>= 1 byte, <= 8) of every write; std's real write_all loop
    /// runs against it. General byte-wise cursor.
    pub struct ShortSink { pub ci: usize, pub wi: usize, pub len: usize, pub writes: usize, pub flushed_len: usize, pub mismatch: bool, pub beyond: bool }
    impl Write for ShortSink {
        fn write(&mut self, buf: &[u8]) -> std::io::Result<usize> {
            self.writes += 1;
            if buf.len() == 0 { return Ok(0); }
            let k: usize = kani::any();
            kani::assume(k >= 1 && k <= buf.len() && k <= 8);
            let a = unsafe { AADLEN };
            vrep!(8, j, {
                if j < k {
                    if self.ci >= unsafe { NSEAL } { self.beyond = true; } else {
                        let e = tget(self.ci);
                        if buf[j] != record_byte(&e, self.ci, a, self.wi) { self.mismatch = true; }
                        self.wi += 1;
                        if self.wi == 32 + e.ptlen { self.ci += 1; self.wi = 0; }
                    }
                }
            });
            self.len += k;
            Ok(k)
        }
        fn flush(&mut self) -> std::io::Result<()> { self.flushed_len = self.len; Ok(()) }
    }

    /// Post-check on the seal log: nonce_i = i; AAD_i = aad || BE32(last_i) || BE32(|chunk i|); the sealed
    /// plaintexts are, in order, exactly the bytes the source handed out, one chunk per read.
    /// `complete`: the run returned Ok, so the last flag must be set exactly once, at the end, and everything consumed.
    pub fn check_seals(r: &SR, aad: &[u8], cs: usize, complete: bool) -> usize {
        let n = unsafe { NSEAL };
        let mut src = 0usize; // plaintext offset of chunk i
        vrep!(6, i, {
            if i < n {
                let e = tget(i);
                assert!(e.nonce == i as u64, "[C06,C07,C01] chunk i is sealed under nonce i (sequential from 0, each nonce once)");
                assert!(e.adlen == aad.len() + 8, "[C06] AAD = caller aad || last-chunk flag || length");
                vrep!(4, j, { if j < aad.len() { assert!(e.ad[j] == aad[j], "[C06,C02] AAD begins with the caller's aad (password-mode magic)"); } });
                let a = aad.len();
                assert!(e.ad[a] == 0 && e.ad[a + 1] == 0 && e.ad[a + 2] == 0 && (e.ad[a + 3] == 0 || e.ad[a + 3] == 1), "[C06] AAD last-chunk flag is BE32 0 or 1");
                if complete {
                    let last: u8 = if i + 1 == n { 1 } else { 0 };
                    assert!(e.ad[a + 3] == last, "[C06,C01,C03] last-chunk flag is 1 on the final chunk and only there");
                }
                assert!(e.ad[a + 4] == 0 && e.ad[a + 5] == 0 && e.ad[a + 6] == 0 && e.ad[a + 7] as usize == e.ptlen, "[C06] AAD length field = BE32(chunk plaintext length)");
                assert!(e.ptlen <= cs, "[C06,C09,C11] chunk plaintext length <= chunk size");
                if i + 1 < n { assert!(e.ptlen >= 1, "[C06] only the final chunk may be empty"); }
                if i < MAXR { assert!(e.ptlen == r.sizes[i], "[C06,C01] chunk i carries exactly the bytes of read i"); }
                vrep!(3, j, { if j < e.ptlen { assert!(e.pt[j] == r.data[src + j], "[C01,C06] sealed plaintext is the next bytes of the source, in order"); } });
                src += e.ptlen;
            }
        });
        if complete {
            assert!(n >= 1, "[C06,C01] at least one (possibly empty) final chunk");
            assert!(src == r.len && r.pos == r.len, "[C01,C06] on success the whole plaintext has been sealed");
        }
        n
    }
    pub fn check_sink(w: &Sink, n: usize, plen: usize, complete: bool) {
        assert!(!w.limit, "[LIMIT] write-call structure outside what this harness models");
        assert!(!w.mismatch, "[C06,C08,C01] every byte written equals the documented record layout: BE64(chunk number) || BE32(last) || BE32(length) || ciphertext || tag");
        assert!(!w.beyond, "[C06,C08,C10] nothing is written beyond the records of the chunks sealed so far");
        if complete {
            assert!(w.ci == n && w.wi == 0, "[C06,C10] on success every record has been written completely");
            assert!(w.len == 32 * n + plen, "[C08] ciphertext length = 32 per chunk + plaintext length");
            assert!(w.flushed_len == w.len, "[C10,C12] on success everything written has been flushed");
        }
    }

    fn enc_format(cs: usize, maxlen: usize, pass_mode: bool, full_reads: bool) -> (usize, usize) {
        let data: [u8; MAXP] = kani::any();
        let len: usize = kani::any();
        kani::assume(len <= maxlen);
        let magic = PASS_FILE_MAGIC;
        let aad: &[u8] = if pass_mode { &magic } else { &[] };
        unsafe { AADLEN = aad.len(); }
        let mut r = SR::new(data, len, full_reads);
        let mut w = Sink::new();
        let key = [0x11u8; 32];
        let res = encrypt_chunks(&mut r, &mut w, &key, aad, cs as u32);
        assert!(res.is_ok(), "[C01,C10] fault-free encryption succeeds for every plaintext and read partition");
        let n = check_seals(&r, aad, cs, true);
        check_sink(&w, n, len, true);
        assert!(r.maxbuf <= cs, "[C11,C09] no read asks for more than one chunk");
        assert!(unsafe { MAX_AEAD_IN } <= cs, "[C11] no AEAD call on more than one chunk");
        assert!(unsafe { MAX_LAG } <= 2 * cs, "[C11] at most two chunks of input consumed beyond what has been written");
        core::mem::forget(res);
        (len, n)
    }

    // ------------------------------------------------------------------------------------------
    /// C01/C06/C07/C08/C11 (framing, fault-free, key mode: aad empty): cs=2, every plaintext of 0..=3 bytes,
    /// EVERY read partition.
    #[kani::proof]
    #[kani::stub(crate::chapoly_encrypt_noise, seal_model)]
    #[kani::unwind(4)]
    pub fn enc_format_cs2_key() {
        let (len, n) = enc_format(2, 3, false, false);
        kani::cover!(len == 0 && n == 1);
        kani::cover!(len == 3 && n == 3);
        kani::cover!(len == 3 && n == 2);
        kani::cover!(len == 2 && n == 1);
    }

    /// Same in password mode (aad = 65 67 6B 20).
    #[kani::proof]
    #[kani::stub(crate::chapoly_encrypt_noise, seal_model)]
    #[kani::unwind(4)]
    pub fn enc_format_cs2_pass() {
        let (len, n) = enc_format(2, 3, true, false);
        kani::cover!(len == 0 && n == 1);
        kani::cover!(len == 3 && n == 3);
        kani::cover!(len == 2 && n == 1);
    }

    /// cs=1, up to 4 bytes => up to 4 chunks (deep enough for "collect then write" to exceed the streaming bound).
    #[kani::proof]
    #[kani::stub(crate::chapoly_encrypt_noise, seal_model)]
    #[kani::unwind(5)]
    pub fn enc_format_cs1() {
        let (len, n) = enc_format(1, 4, false, true);
        kani::cover!(len == 4 && n == 4);
        kani::cover!(len == 0 && n == 1);
    }

    /// cs=3, plaintext 0..=5, every read partition (thorough).
    #[kani::proof]
    #[kani::stub(crate::chapoly_encrypt_noise, seal_model)]
    #[kani::unwind(6)]
    pub fn enc_format_cs3_key() {
        let (len, n) = enc_format(3, 5, false, false);
        kani::cover!(len == 5 && n == 5);
        kani::cover!(len == 3 && n == 1);
        kani::cover!(len == 4 && n == 2);
    }
    #[kani::proof]
    #[kani::stub(crate::chapoly_encrypt_noise, seal_model)]
    #[kani::unwind(6)]
    pub fn enc_format_cs3_pass() {
        let (len, n) = enc_format(3, 5, true, false);
        kani::cover!(len == 5 && n == 5);
        kani::cover!(len == 3 && n == 1);
    }

    // ------------------------------------------------------------------------------------------
    /// C10 (encrypt side): one fault at a solver-chosen read / write / flush call, or an Ok(0) write.
    #[kani::proof]
    #[kani::stub(crate::chapoly_encrypt_noise, seal_model)]
    #[kani::unwind(4)]
    pub fn enc_faults_cs2() {
        let data: [u8; MAXP] = kani::any();
        let len: usize = kani::any();
        kani::assume(len <= 3);
        unsafe { AADLEN = 0; }
        let mut r = SR::new(data, len, true);
        let mut w = Sink::new();
        let which: u8 = kani::any();
        kani::assume(which <= 3);
        let at: usize = kani::any();
        kani::assume(at <= 4);
        let kind: u8 = kani::any();
        kani::assume(kind <= 3);
        match which {
            0 => { r.fault_at = at; r.fault_kind = kind; }
            1 => { w.wfault_at = at; w.fault_kind = kind; }
            2 => { w.ffault_at = at; w.fault_kind = kind; }
            _ => { w.zero_at = at; }
        }
        let key = [0x11u8; 32];
        let res = encrypt_chunks(&mut r, &mut w, &key, &[], 2);
        let fired = r.faulted || w.faulted;
        let ok = res.is_ok();
        match &res {
            Ok(()) => { assert!(!fired || (which == 1 && kind == 0), "[C10] success only if no fault fired, or an interrupted write that std retries"); }
            Err(EncryptError::IORead(_)) => { assert!(r.faulted && !w.faulted, "[C10] IORead reported only for a failing read"); }
            Err(EncryptError::IOWrite(_)) => { assert!(w.faulted && !r.faulted, "[C10] IOWrite reported only for a failing write or flush"); }
            Err(_) => { assert!(false, "[C10] an I/O fault is reported as IORead/IOWrite, nothing else fails"); }
        }
        let n = check_seals(&r, &[], 2, ok);
        check_sink(&w, n, len, ok);
        assert!(!w.after_fault, "[C10] nothing is written or flushed after a reported failure");
        kani::cover!(ok && fired);
        kani::cover!(matches!(res, Err(EncryptError::IORead(_))) && w.len > 0);
        kani::cover!(matches!(res, Err(EncryptError::IOWrite(_))) && which == 2);
        kani::cover!(matches!(res, Err(EncryptError::IOWrite(_))) && which == 3);
        kani::cover!(ok && !fired && len == 3);
        core::mem::forget(res);
    }

    /// C10/C01: a sink that accepts a solver-chosen part (>= 1 byte) of every write: result and bytes unchanged.
    /// std's real write_all loop runs (unwind 34 covers a 33-byte record written one byte at a time).
    #[kani::proof]
    #[kani::stub(crate::chapoly_encrypt_noise, seal_model)]
    #[kani::unwind(34)]
    pub fn enc_short_writes_cs1() {
        let data: [u8; MAXP] = kani::any();
        let len: usize = kani::any();
        kani::assume(len <= 1);
        unsafe { AADLEN = 0; }
        let mut r = SR::new(data, len, true);
        let mut w = ShortSink { ci: 0, wi: 0, len: 0, writes: 0, flushed_len: 0, mismatch: false, beyond: false };
        let key = [0x11u8; 32];
        let res = encrypt_chunks(&mut r, &mut w, &key, &[], 1);
        assert!(res.is_ok(), "[C01,C10] partial writes are harmless: encryption succeeds");
        let n = check_seals(&r, &[], 1, true);
        assert!(!w.mismatch && !w.beyond, "[C10,C01,C06] with partial writes the byte stream still equals the documented layout");
        assert!(w.ci == n && w.wi == 0 && w.len == 32 * n + len, "[C10,C08] with partial writes every record is still written completely");
        assert!(w.flushed_len == w.len, "[C10] everything flushed");
        kani::cover!(w.writes > 6);
        kani::cover!(len == 1);
        core::mem::forget(res);
    }
}
