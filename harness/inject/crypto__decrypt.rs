// Injected (cfg(kani) only) at the end of src/crypto/src/decrypt.rs: child module of `decrypt`,
// sees the private `decrypt_chunks`, read_err/write_err.
//
// H-DEC: the REAL decrypt_chunks
//  (A) on a COMPLETELY UNCONSTRAINED byte stream of unconstrained length (the attacker's file), while the
//      ideal AEAD table holds one authentic file of 1..n chunks with solver-chosen legal chunk lengths;
//  (M) on the byte stream the format model prescribes for that authentic file (conformance direction).
// The plaintext sink asserts, inside every write call, that what is released is the chunk that was just
// authenticated, in order.

#[allow(dead_code, static_mut_refs, unused_imports, unused_variables, unused_mut)]
pub(crate) mod verif_dec {
    use super::*;
    use crate::verif_common::*;
    use crate::vrep;
    use std::io::{Read, Write};

    pub const NONE: usize = usize::MAX;
    /// native replay helper: the REAL decrypt_chunks on an in-memory stream
    pub fn native_decrypt(stream: &[u8], out: &mut Vec<u8>, key: &[u8], aad: &[u8], cs: usize) -> bool {
        let mut rd: &[u8] = stream;
        decrypt_chunks(&mut rd, out, key, aad, cs as u32).is_ok()
    }
    /// native replay: REAL[i] = ct || tag that the real AEAD produces for authentic chunk i
    pub static mut REAL: [[u8; 19]; 4] = [[0; 19]; 4];
    pub static mut NAT_N: usize = 0;
    pub static mut NAT_AAD: [u8; 4] = [0; 4];
    pub fn native_seal_table(n: usize, aad: &[u8], key: &[u8]) {
        unsafe {
            NAT_N = n;
            let mut i = 0;
            while i < n {
                let e = tget(BASE + i);
                let c = crate::chapoly_encrypt_noise(key, i as u64, &e.ad[..e.adlen], &e.pt[..e.ptlen]);
                REAL[i][..c.len()].copy_from_slice(&c);
                i += 1;
            }
        }
    }
    pub static mut DEC_AADLEN: usize = 0;
    pub static mut CT_CONSUMED: usize = 0; // ciphertext bytes handed to the decryptor so far
    pub static mut CT_RELEASED: usize = 0; // 32+len of every chunk whose plaintext has been written
    pub static mut MAX_CT_LAG: usize = 0;

    // ---------------------------------------------------------------- the authentic file (table)
    /// Fill the ideal-AEAD table with an authentic file of `n` chunks under key byte `k0`: chunk i has nonce i,
    /// a solver-chosen legal length (1..=cs, final 0..=cs), AAD = aad || BE32(last) || BE32(len), and
    /// unconstrained plaintext / ciphertext / tag. Returns total plaintext length.
    pub fn authentic_file(n: usize, cs: usize, aad: &[u8], k0: u8, base: usize) -> usize {
        let mut plen = 0usize;
        vrep!(4, i, {
            if i < n {
                let l: usize = kani::any();
                kani::assume(l <= cs);
                if i + 1 < n { kani::assume(l >= 1); }
                let pt: [u8; MAXCS] = kani::any();
                let ct: [u8; MAXCS] = kani::any();
                let tag: u128 = kani::any();
                let mut ad = [0u8; 12];
                vrep!(4, j, { if j < aad.len() { ad[j] = aad[j]; } });
                let a = aad.len();
                ad[a + 3] = if i + 1 == n { 1 } else { 0 };
                ad[a + 7] = l as u8;
                tput(base + i, Entry { used: true, key0: k0, nonce: i as u64, adlen: a + 8, ad, ptlen: l, pt, ct, tag });
                plen += l;
            }
        });
        plen
    }

    // ---------------------------------------------------------------- open model with release tracking
    pub static mut OPENED: usize = 0; // number of successful opens
    pub static mut OPEN_ORDER_OK: bool = true; // the k-th successful open matched table entry BASE+k
    pub static mut PENDING: usize = NONE; // table index authenticated and not yet released to the sink
    pub static mut BASE: usize = 0; // table index of chunk 0 of the file being decrypted
    pub fn open_tracking(key: &[u8], nonce: u64, ad: &[u8], ct: &[u8]) -> Result<Vec<u8>, crate::errors::ChaPolyDecryptError> {
        unsafe {
            NOPEN += 1;
            if ct.len() > MAX_AEAD_IN { MAX_AEAD_IN = ct.len(); }
        }
        if ct.len() < 16 { return Err(crate::errors::ChaPolyDecryptError); }
        vrep!(6, i, {
            let e = tget(i);
            if entry_matches(&e, key, nonce, ad, ct) {
                unsafe {
                    if i != BASE + OPENED { OPEN_ORDER_OK = false; }
                    OPENED += 1;
                    PENDING = i;
                }
                { let mut v = e.pt.to_vec(); v.truncate(e.ptlen); return Ok(v); } // never a capacity-0 Vec: an empty Vec returned from a stub trips a Kani model quirk (bogus dealloc)
            }
        });
        Err(crate::errors::ChaPolyDecryptError)
    }

    // ---------------------------------------------------------------- plaintext sink that checks every release
    pub struct PSink { pub released: usize, pub len: usize, pub writes: usize, pub flushes: usize, pub flushed_len: usize,
                       pub unauth: bool, pub wrong: bool, pub wfault_at: usize, pub ffault_at: usize, pub fault_kind: u8,
                       pub faulted: bool, pub after_fault: bool }
    impl PSink {
        pub fn new() -> Self {
            PSink { released: 0, len: 0, writes: 0, flushes: 0, flushed_len: 0, unauth: false, wrong: false,
                    wfault_at: NONE, ffault_at: NONE, fault_kind: 3, faulted: false, after_fault: false }
        }
    }
    impl Write for PSink {
        fn write(&mut self, buf: &[u8]) -> std::io::Result<usize> {
            let c = self.writes;
            self.writes += 1;
            if self.faulted { self.after_fault = true; }
            if c == self.wfault_at { self.faulted = true; return Err(io_err(self.fault_kind)); }
            if native() {
                // native replay (real AEAD, no open log): what is written must be the next non-empty authentic chunk, whole
                let mut i = self.released;
                while i < unsafe { NAT_N } && tget(unsafe { BASE } + i).ptlen == 0 { i += 1; }
                if i >= unsafe { NAT_N } { self.unauth = true; } else {
                    let e = tget(unsafe { BASE } + i);
                    if buf.len() != e.ptlen || buf != &e.pt[..e.ptlen] { self.wrong = true; }
                    self.released = i + 1;
                    unsafe { CT_RELEASED += 32 + e.ptlen; }
                }
                self.len += buf.len();
                return Ok(buf.len());
            }
            let p = unsafe { PENDING };
            if p == NONE {
                // bytes offered although no authenticated chunk is waiting to be released
                self.unauth = true;
            } else {
                let e = tget(p);
                if buf.len() != e.ptlen { self.wrong = true; }
                vrep!(3, j, { if j < e.ptlen && j < buf.len() && buf[j] != e.pt[j] { self.wrong = true; } });
                unsafe { PENDING = NONE; CT_RELEASED += 32 + e.ptlen; }
                self.released += 1;
            }
            self.len += buf.len();
            Ok(buf.len())
        }
        /// std's write_all specialised to a sink that accepts everything or fails (loop-free); an empty chunk
        /// produces no write call, exactly as with std's loop.
        fn write_all(&mut self, buf: &[u8]) -> std::io::Result<()> {
            if buf.is_empty() {
                // an authenticated empty chunk is "released" without a call
                unsafe { if PENDING != NONE && tget(PENDING).ptlen == 0 { PENDING = NONE; CT_RELEASED += 32; self.released += 1; } }
                return Ok(());
            }
            match self.write(buf) { Ok(_) => Ok(()), Err(e) => Err(e) }
        }
        fn flush(&mut self) -> std::io::Result<()> {
            let c = self.flushes;
            self.flushes += 1;
            if self.faulted { self.after_fault = true; }
            if c == self.ffault_at { self.faulted = true; return Err(io_err(self.fault_kind)); }
            self.flushed_len = self.len;
            Ok(())
        }
    }

    // ---------------------------------------------------------------- (A) the attacker's stream
    /// A byte source of unconstrained content and unconstrained length (<= `remaining`): every byte handed out is
    /// a fresh `kani::any()`. Delivers everything available (so read_exact is one step); can fail at a chosen call.
    pub struct AnyReader { pub remaining: usize, pub calls: usize, pub maxbuf: usize, pub fault_at: usize, pub fault_kind: u8, pub faulted: bool, pub nat_body: bool }
    impl AnyReader {
        fn fill(&mut self, buf: &mut [u8], k: usize) {
            vrep!(20, j, { if j < k { buf[j] = kani::any(); } });
            if native() && k >= 16 && self.nat_body {
                // native replay: bytes that equal the ABSTRACT ct||tag of authentic chunk i are replaced by what the REAL
                // AEAD produces for chunk i (the ideal model accepts exactly those; everything else stays as the solver chose it)
                let mut i = 0;
                while i < unsafe { NAT_N } {
                    let e = tget(unsafe { BASE } + i);
                    if k == e.ptlen + 16 && buf[..e.ptlen] == e.ct[..e.ptlen] && buf[e.ptlen..k] == e.tag.to_le_bytes() {
                        buf[..k].copy_from_slice(unsafe { &REAL[i][..k] });
                    }
                    i += 1;
                }
            }
            self.remaining -= k;
            unsafe {
                CT_CONSUMED += k;
                let lag = CT_CONSUMED - CT_RELEASED;
                if lag > MAX_CT_LAG { MAX_CT_LAG = lag; }
            }
        }
    }
    impl Read for AnyReader {
        fn read(&mut self, buf: &mut [u8]) -> std::io::Result<usize> {
            let c = self.calls;
            self.calls += 1;
            if buf.len() > self.maxbuf { self.maxbuf = buf.len(); }
            if c == self.fault_at { self.faulted = true; return Err(io_err(self.fault_kind)); }
            // a read may return fewer bytes than requested: at most 20 per call here (the request size itself is recorded in maxbuf)
            let want = if buf.len() < 20 { buf.len() } else { 20 };
            let k = if self.remaining < want { self.remaining } else { want };
            self.fill(buf, k);
            Ok(k)
        }
        /// std's read_exact specialised to a source that delivers everything available: one step.
        fn read_exact(&mut self, buf: &mut [u8]) -> std::io::Result<()> {
            let c = self.calls;
            self.calls += 1;
            if buf.len() > self.maxbuf { self.maxbuf = buf.len(); }
            if c == self.fault_at {
                self.faulted = true;
                // std retries Interrupted inside read_exact: model the retry as "the fault did not happen"
                if self.fault_kind != 0 { return Err(io_err(self.fault_kind)); }
            }
            assert!(buf.len() <= 20, "[LIMIT] harness bound: reads <= 20 bytes");
            if self.remaining < buf.len() {
                let k = self.remaining;
                self.fill(buf, k);
                return Err(std::io::Error::from(std::io::ErrorKind::UnexpectedEof));
            }
            let k = buf.len();
            self.fill(buf, k);
            self.nat_body = !self.nat_body; // the decryptor alternates header (16) and body (len+16) requests
            Ok(())
        }
    }

    /// Run the real decrypt_chunks on attacker bytes; returns (n, plen, result-is-ok).
    fn dec_attack(cs: usize, maxn: usize, pass_mode: bool, faults: bool) {
        let n: usize = kani::any();
        kani::assume(n >= 1 && n <= maxn);
        let magic = [0x65u8, 0x67, 0x6b, 0x20];
        let aad: &[u8] = if pass_mode { &magic } else { &[] };
        unsafe { DEC_AADLEN = aad.len(); BASE = 0; }
        let plen = authentic_file(n, cs, aad, 0x11, 0);
        let total: usize = kani::any();
        kani::assume(total <= maxn * (32 + cs) + 2);
        let mut r = AnyReader { remaining: total, calls: 0, maxbuf: 0, fault_at: NONE, fault_kind: 3, faulted: false, nat_body: false };
        let mut w = PSink::new();
        if faults {
            let which: u8 = kani::any();
            kani::assume(which <= 2);
            let at: usize = kani::any();
            kani::assume(at <= 2 * maxn + 1);
            let kind: u8 = kani::any();
            kani::assume(kind <= 3);
            match which {
                0 => { r.fault_at = at; r.fault_kind = kind; }
                1 => { w.wfault_at = at; w.fault_kind = kind; }
                _ => { w.ffault_at = at; w.fault_kind = kind; }
            }
        }
        let key = [0x11u8; 32];
        let nat = native();
        if nat { native_seal_table(n, aad, &key); }
        let res = decrypt_chunks(&mut r, &mut w, &key, aad, cs as u32);
        let opened = unsafe { OPENED };
        // ---- C04: what has been released, at every point
        assert!(!w.unauth, "[C04,C03] no byte is written unless a chunk has just been authenticated");
        assert!(!w.wrong, "[C04,C03] what is written is exactly the plaintext of the authenticated chunk, whole");
        assert!(unsafe { OPEN_ORDER_OK }, "[C04,C03] chunks authenticate only in their original order (chunk k under nonce k)");
        if !nat { assert!(w.released <= opened && opened <= n, "[C04] released chunks are a prefix of the authenticated ones"); }
        assert!(!w.after_fault, "[C04,C10] nothing is written or flushed after a failure has been reported by the sink");
        // ---- C03: acceptance
        if res.is_ok() {
            if !nat { assert!(opened == n && w.released == n, "[C03,C04] success only after every chunk up to the one flagged final has been authenticated and written"); }
            assert!(w.len == plen, "[C03,C04] on success the output is the complete original plaintext (every chunk up to the final one, nothing else)");
            assert!(r.remaining == 0, "[C03,C04] success only if the ciphertext ends right after the final chunk");
            assert!(unsafe { CT_CONSUMED } == 32 * n + plen, "[C03] an accepted file has exactly the authentic length");
            assert!(w.flushed_len == w.len, "[C10,C12] on success everything written has been flushed");
            assert!(!r.faulted || r.fault_kind == 0, "[C10] success is never reported when a read failed (other than a retried interruption)");
            assert!(!w.faulted, "[C10] success is never reported when a write or flush failed");
        }
        if !nat && !w.faulted && !r.faulted {
            if let Err(e) = &res {
                if !matches!(e, DecryptError::UnexpectedData) {
                    assert!(w.released == opened, "[C13,C04] when a later chunk fails, every chunk authenticated before it has already been written: the output holds exactly the authenticated prefix");
                }
            }
        }
        match &res {
            Err(DecryptError::IORead(_)) => { assert!(!w.faulted, "[C10] IORead is not reported for a failing sink"); }
            Err(DecryptError::IOWrite(_)) => { assert!(w.faulted, "[C10] IOWrite reported only for a failing write or flush"); }
            Err(DecryptError::Other(_)) => { assert!(false, "[C09,C10] the chunk loop reports only ChunkLen, ChaPolyDecrypt, UnexpectedData, IORead, IOWrite"); }
            _ => {}
        }
        if w.faulted { assert!(matches!(res, Err(DecryptError::IOWrite(_))), "[C10] a failing write or flush surfaces as IOWrite"); }
        if r.faulted && r.fault_kind != 0 { assert!(res.is_err(), "[C10] a failing read surfaces as an error"); }
        // ---- C09 / C11: bounded work
        assert!(r.maxbuf <= cs + 16, "[C09,C11] no read request exceeds chunk size + 16, whatever the header says");
        assert!(unsafe { MAX_AEAD_IN } <= cs + 16, "[C09,C11] no AEAD input exceeds chunk size + 16");
        if !nat { assert!(unsafe { MAX_CT_LAG } <= 2 * (cs + 32), "[C11] at most two records of ciphertext consumed beyond what has been released"); }
        kani::cover!(res.is_ok() && n == maxn);
        kani::cover!(res.is_ok() && n == 1 && plen == 0);
        kani::cover!(res.is_err() && w.released == maxn - 1 && opened == maxn);
        kani::cover!(matches!(res, Err(DecryptError::ChunkLen)));
        kani::cover!(matches!(res, Err(DecryptError::UnexpectedData)));
        kani::cover!(matches!(res, Err(DecryptError::ChaPolyDecrypt)) && w.released >= 1);
        core::mem::forget(res);
    }

    /// C03/C04/C09/C11: cs=2, authentic file of 1..2 chunks, attacker stream of ANY content and any length 0..70.
    #[kani::proof]
    #[kani::stub(crate::chapoly_decrypt_noise, open_tracking)]
    #[kani::stub(crate::verif_common::native, crate::verif_common::native_false)]
    #[kani::unwind(4)]
    pub fn dec_attack_cs2_n2() { dec_attack(2, 2, false, false); }

    /// Same in password mode (aad = magic).
    #[kani::proof]
    #[kani::stub(crate::chapoly_decrypt_noise, open_tracking)]
    #[kani::stub(crate::verif_common::native, crate::verif_common::native_false)]
    #[kani::unwind(4)]
    pub fn dec_attack_cs2_n2_pass() { dec_attack(2, 2, true, false); }

    /// cs=1, 1..3 chunks: deep enough for "drop a middle chunk" / "skip ahead" to be expressible.
    #[kani::proof]
    #[kani::stub(crate::chapoly_decrypt_noise, open_tracking)]
    #[kani::stub(crate::verif_common::native, crate::verif_common::native_false)]
    #[kani::unwind(5)]
    pub fn dec_attack_cs1_n3() { dec_attack(1, 3, false, false); }

    /// cs=3, 1..4 chunks (thorough).
    #[kani::proof]
    #[kani::stub(crate::chapoly_decrypt_noise, open_tracking)]
    #[kani::stub(crate::verif_common::native, crate::verif_common::native_false)]
    #[kani::unwind(6)]
    pub fn dec_attack_cs3_n4() { dec_attack(3, 4, false, false); }

    /// C10 (decrypt side): additionally one fault at a solver-chosen read / write / flush call.
    #[kani::proof]
    #[kani::stub(crate::chapoly_decrypt_noise, open_tracking)]
    #[kani::stub(crate::verif_common::native, crate::verif_common::native_false)]
    #[kani::unwind(4)]
    pub fn dec_faults_cs2_n2() { dec_attack(2, 2, false, true); }

    // ---------------------------------------------------------------- (M) the model's stream
    /// Emits the byte stream the format prescribes for the authentic file in the table: for record i
    ///   8 unconstrained bytes (the advisory counter) || flag || len (as authenticated) || ct || tag.
    /// Delivers exactly what read_exact asks for when the request is a whole header / whole body.
    pub struct ModelReader { pub n: usize, pub ci: usize, pub wi: usize, pub extra: usize, pub limit: bool, pub calls: usize, pub short: bool }
    impl ModelReader {
        fn byte(&self, e: &Entry, wi: usize) -> u8 {
            let a = unsafe { DEC_AADLEN };
            if wi < 8 { kani::any() }
            else if wi < 16 { e.ad[a + wi - 8] }
            else if wi < 16 + e.ptlen { e.ct[wi - 16] }
            else { e.tag.to_le_bytes()[wi - 16 - e.ptlen] }
        }
    }
    impl Read for ModelReader {
        fn read(&mut self, buf: &mut [u8]) -> std::io::Result<usize> {
            self.calls += 1;
            if buf.len() == 0 { return Ok(0); }
            if self.ci >= self.n {
                // after the final record: `extra` trailing bytes
                if self.extra == 0 { return Ok(0); }
                buf[0] = kani::any();
                self.extra -= 1;
                return Ok(1);
            }
            // general byte-wise path (used with short reads): solver-chosen count within the current record
            let e = tget(unsafe { BASE } + self.ci);
            let left = 32 + e.ptlen - self.wi;
            let mut k: usize = if self.short { kani::any() } else { buf.len() };
            kani::assume(k >= 1 && k <= buf.len());
            if k > left { k = left; }
            if k > 8 { k = 8; }
            vrep!(8, j, { if j < k { buf[j] = self.byte(&e, self.wi + j); } });
            self.wi += k;
            if self.wi == 32 + e.ptlen { self.ci += 1; self.wi = 0; }
            unsafe { CT_CONSUMED += k; }
            Ok(k)
        }
    }
    /// Whole-request reader for the conformance direction (loop-free read_exact).
    pub struct ModelReaderExact { pub inner: ModelReader }
    impl Read for ModelReaderExact {
        fn read(&mut self, buf: &mut [u8]) -> std::io::Result<usize> {
            // only the 1-byte end-of-file probe uses read() directly
            let m = &mut self.inner;
            m.calls += 1;
            if m.ci >= m.n && m.wi == 0 {
                if m.extra == 0 || buf.len() == 0 { return Ok(0); }
                buf[0] = kani::any();
                m.extra -= 1;
                return Ok(1);
            }
            m.limit = true;
            Ok(0)
        }
        fn read_exact(&mut self, buf: &mut [u8]) -> std::io::Result<()> {
            let m = &mut self.inner;
            m.calls += 1;
            if m.ci >= m.n { return Err(std::io::Error::from(std::io::ErrorKind::UnexpectedEof)); }
            let e = tget(unsafe { BASE } + m.ci);
            let a = unsafe { DEC_AADLEN };
            if m.wi == 0 && buf.len() == 16 {
                vrep!(8, j, { buf[j] = kani::any(); });
                vrep!(8, j, { buf[8 + j] = e.ad[a + j]; });
                m.wi = 16;
            } else if m.wi == 16 && buf.len() == e.ptlen + 16 {
                let t = e.tag.to_le_bytes();
                let n = e.ptlen;
                vrep!(3, j, { if j < n { buf[j] = e.ct[j]; } });
                vrep!(16, j, { buf[n + j] = t[j]; });
                m.wi = 0;
                m.ci += 1;
            } else {
                m.limit = true;
                return Err(std::io::Error::from(std::io::ErrorKind::Other));
            }
            unsafe { CT_CONSUMED += buf.len(); }
            Ok(())
        }
    }

    /// C01/C06 (conformance direction): EVERY file the format allows - 1..n chunks with any legal chunk lengths
    /// (chunkings the encryptor itself never emits included), any value in the advisory counter field - decrypts
    /// to exactly its plaintext; with trailing bytes it is rejected (UnexpectedData) after... nothing more is written.
    fn dec_model(cs: usize, maxn: usize, pass_mode: bool) {
        let n: usize = kani::any();
        kani::assume(n >= 1 && n <= maxn);
        let magic = [0x65u8, 0x67, 0x6b, 0x20];
        let aad: &[u8] = if pass_mode { &magic } else { &[] };
        unsafe { DEC_AADLEN = aad.len(); BASE = 0; }
        let plen = authentic_file(n, cs, aad, 0x11, 0);
        let extra: usize = kani::any();
        kani::assume(extra <= 1);
        let mut r = ModelReaderExact { inner: ModelReader { n, ci: 0, wi: 0, extra, limit: false, calls: 0, short: false } };
        let mut w = PSink::new();
        let key = [0x11u8; 32];
        let res = decrypt_chunks(&mut r, &mut w, &key, aad, cs as u32);
        assert!(!r.inner.limit, "[LIMIT] read-call structure outside what this harness models");
        assert!(!w.unauth && !w.wrong && unsafe { OPEN_ORDER_OK }, "[C04,C01,C02] only authenticated chunks are written, whole and in order");
        if extra == 0 {
            assert!(res.is_ok(), "[C01,C02,C06] every file conforming to the documented format decrypts successfully, whatever its chunking and counter fields");
            assert!(w.released == n && w.len == plen, "[C01,C02,C06] ... to exactly its plaintext");
            assert!(w.flushed_len == w.len, "[C10,C12] and everything has been flushed");
        } else {
            assert!(matches!(res, Err(DecryptError::UnexpectedData)), "[C03,C04] bytes after the final chunk are reported as UnexpectedData");
        }
        kani::cover!(res.is_ok() && n == maxn && plen == maxn * cs);
        kani::cover!(res.is_ok() && n == 1 && plen == 0);
        kani::cover!(res.is_err());
        core::mem::forget(res);
    }

    #[kani::proof]
    #[kani::stub(crate::chapoly_decrypt_noise, open_tracking)]
    #[kani::stub(crate::verif_common::native, crate::verif_common::native_false)]
    #[kani::unwind(4)]
    pub fn dec_model_cs2_n3() { dec_model(2, 3, false); }

    #[kani::proof]
    #[kani::stub(crate::chapoly_decrypt_noise, open_tracking)]
    #[kani::stub(crate::verif_common::native, crate::verif_common::native_false)]
    #[kani::unwind(4)]
    pub fn dec_model_cs2_n3_pass() { dec_model(2, 3, true); }

    #[kani::proof]
    #[kani::stub(crate::chapoly_decrypt_noise, open_tracking)]
    #[kani::stub(crate::verif_common::native, crate::verif_common::native_false)]
    #[kani::unwind(6)]
    pub fn dec_model_cs3_n5() { dec_model(3, 5, false); }

    /// A source that delivers the model's byte stream of a single-record file but answers every read request only partly
    /// (a solver-chosen part >= 1 byte, then the rest on the follow-up call): every read_exact is split once at an
    /// arbitrary point, std's real read_exact loop runs.
    pub struct ShortModelReader { pub exp: [u8; 36], pub exp_len: usize, pub pos: usize, pub in_rest: bool, pub splits: usize, pub calls: usize, pub limit: bool }
    impl Read for ShortModelReader {
        fn read(&mut self, buf: &mut [u8]) -> std::io::Result<usize> {
            self.calls += 1;
            if buf.len() == 0 || self.pos >= self.exp_len { return Ok(0); }
            if buf.len() > 20 { self.limit = true; return Ok(0); }
            let left = self.exp_len - self.pos;
            let want = if buf.len() < left { buf.len() } else { left };
            let k: usize = if self.in_rest { want } else { kani::any() };
            kani::assume(k >= 1 && k <= want);
            if !self.in_rest && k < want { self.in_rest = true; self.splits += 1; } else { self.in_rest = false; }
            let p = self.pos;
            vrep!(20, j, { if j < k { buf[j] = self.exp[p + j]; } });
            self.pos += k;
            Ok(k)
        }
    }

    /// C10/C01/C02: the authentic stream delivered in SHORT reads (every read_exact split once at an arbitrary point;
    /// std's real read_exact loop): same result.
    #[kani::proof]
    #[kani::stub(crate::chapoly_decrypt_noise, open_tracking)]
    #[kani::stub(crate::verif_common::native, crate::verif_common::native_false)]
    #[kani::unwind(4)]
    pub fn dec_short_reads_cs1() {
        unsafe { DEC_AADLEN = 0; BASE = 0; }
        let plen = authentic_file(1, 1, &[], 0x11, 0);
        let e = tget(0);
        let mut exp = [0u8; 36];
        let ctr: [u8; 8] = kani::any(); // the advisory counter field: any value
        vrep!(8, j, { exp[j] = ctr[j]; });
        vrep!(8, j, { exp[8 + j] = e.ad[j]; });
        let t = e.tag.to_le_bytes();
        let exp_len = if e.ptlen == 0 { vrep!(16, j, { exp[16 + j] = t[j]; }); 32 } else { exp[16] = e.ct[0]; vrep!(16, j, { exp[17 + j] = t[j]; }); 33 };
        let mut r = ShortModelReader { exp, exp_len, pos: 0, in_rest: false, splits: 0, calls: 0, limit: false };
        let mut w = PSink::new();
        let key = [0x11u8; 32];
        let res = decrypt_chunks(&mut r, &mut w, &key, &[], 1);
        assert!(!r.limit, "[LIMIT] read-call structure outside what this harness models (a request > 20 bytes)");
        assert!(res.is_ok(), "[C10,C01,C02] short reads are harmless: decryption succeeds");
        assert!(!w.unauth && !w.wrong && w.released == 1 && w.len == plen, "[C10,C01,C02] ... with exactly the plaintext");
        kani::cover!(r.splits >= 2);
        kani::cover!(plen == 1 && r.splits == 0);
        core::mem::forget(res);
    }
}

// H-HDR (decrypt side): the REAL key_decrypt / pass_decrypt / valid_file_format on an unconstrained byte stream,
// with Noise, HKDF, scrypt and the chunk loop replaced by recorders.
#[allow(dead_code, static_mut_refs, unused_imports, unused_variables, unused_mut)]
pub(crate) mod verif_hdr_dec {
    use super::*;
    use crate::errors::NoiseError;
    use crate::{NoiseDecryptMsg, PayloadKey};
    use std::io::{Read, Write};

    pub static mut R_CONSUMED: usize = 0;
    pub static mut R_CALLS: usize = 0;
    /// header bytes: unconstrained content, unconstrained length; delivers everything available.
    /// read_exact is served at concrete offsets for the request shapes a header parser makes (4 bytes at 0, then
    /// 128 or 32 bytes at 4); any other shape sets R_LIMIT (=> inconclusive).
    pub static mut R_LIMIT: bool = false;
    pub struct HdrReader { pub data: [u8; 140], pub len: usize, pub short: bool }
    impl HdrReader {
        /// copy `d` bytes from concrete offset `c` (the shapes a header parser can ask for, with or without one short read)
        fn deliver(&self, buf: &mut [u8], c: usize, d: usize) -> bool {
            match (c, d) {
                (0, 4) => buf[..4].copy_from_slice(&self.data[0..4]),
                (0, 3) => buf[..3].copy_from_slice(&self.data[0..3]),
                (3, 1) => buf[..1].copy_from_slice(&self.data[3..4]),
                (4, 128) => buf[..128].copy_from_slice(&self.data[4..132]),
                (4, 127) => buf[..127].copy_from_slice(&self.data[4..131]),
                (131, 1) => buf[..1].copy_from_slice(&self.data[131..132]),
                (4, 32) => buf[..32].copy_from_slice(&self.data[4..36]),
                (4, 31) => buf[..31].copy_from_slice(&self.data[4..35]),
                (35, 1) => buf[..1].copy_from_slice(&self.data[35..36]),
                _ => return false,
            }
            true
        }
    }
    impl Read for HdrReader {
        /// A conforming source: returns what is available, or - when `short` - one byte less than asked for (the
        /// remaining byte on the next call). std's real read_exact loop runs on top of it.
        fn read(&mut self, buf: &mut [u8]) -> std::io::Result<usize> {
            unsafe {
                R_CALLS += 1;
                let want = buf.len();
                let avail = self.len - R_CONSUMED;
                if want == 0 || avail == 0 { return Ok(0); }
                let mut d = if avail < want { avail } else { want };
                if self.short && d == want && want > 1 { d = want - 1; }
                if avail < want {
                    // the file ends inside this field: contents are irrelevant (the caller must report an error)
                    R_CONSUMED += d;
                    return Ok(d);
                }
                if !self.deliver(buf, R_CONSUMED, d) { R_LIMIT = true; }
                R_CONSUMED += d;
                Ok(d)
            }
        }
        /// std's read_exact loop, written out for a source that needs at most two calls per request (loop-free)
        fn read_exact(&mut self, buf: &mut [u8]) -> std::io::Result<()> {
            let want = buf.len();
            if want == 0 { return Ok(()); }
            let k = self.read(buf)?;
            if k == want { return Ok(()); }
            if k == 0 { return Err(std::io::Error::from(std::io::ErrorKind::UnexpectedEof)); }
            let k2 = self.read(&mut buf[k..])?;
            if k + k2 == want { Ok(()) } else { Err(std::io::Error::from(std::io::ErrorKind::UnexpectedEof)) }
        }
    }
    /// E-CUT: message formatting produces nothing (message content is not the subject here)
    pub fn fmtwrite_cut(_o: &mut dyn core::fmt::Write, _a: core::fmt::Arguments<'_>) -> core::fmt::Result { Ok(()) }
    pub static mut P_WRITES: usize = 0;
    pub static mut P_FLUSHES: usize = 0;
    pub struct PCount;
    impl Write for PCount {
        fn write(&mut self, buf: &[u8]) -> std::io::Result<usize> { unsafe { P_WRITES += 1; } Ok(buf.len()) }
        fn flush(&mut self) -> std::io::Result<()> { unsafe { P_FLUSHES += 1; } Ok(()) }
    }

    #[derive(Clone, Copy)]
    pub struct NdArgs { n: usize, r: [u8; 32], rpk: [u8; 32], prologue: [u8; 4], plen: usize, msg: [u8; 128], mlen: usize, consumed_at_call: usize }
    pub static mut ND: NdArgs = NdArgs { n: 0, r: [0; 32], rpk: [0; 32], prologue: [0; 4], plen: 0, msg: [0; 128], mlen: 0, consumed_at_call: 0 };
    pub static mut ND_FAIL: bool = false;
    pub static mut ND_PAYLOAD: [u8; 32] = [0; 32];
    pub static mut ND_SENDER: [u8; 32] = [0; 32];
    pub static mut ND_HH: [u8; 32] = [0; 32];
    pub fn noise_decrypt_rec(recipient: &PrivateKey, recipient_public: &PublicKey, prologue: &[u8], handshake_message: &[u8]) -> Result<NoiseDecryptMsg, NoiseError> {
        unsafe {
            ND.n += 1;
            ND.r.copy_from_slice(recipient.as_bytes());
            ND.rpk.copy_from_slice(recipient_public.as_bytes());
            ND.plen = prologue.len();
            if prologue.len() == 4 { ND.prologue.copy_from_slice(prologue); }
            ND.mlen = handshake_message.len();
            if handshake_message.len() == 128 { ND.msg.copy_from_slice(handshake_message); }
            ND.consumed_at_call = R_CONSUMED;
            if ND_FAIL { return Err(NoiseError::Decrypt); }
            let (p, s, h): ([u8; 32], [u8; 32], [u8; 32]) = (kani::any(), kani::any(), kani::any());
            ND_PAYLOAD = p; ND_SENDER = s; ND_HH = h;
            Ok(NoiseDecryptMsg { payload_key: PayloadKey::new(&p), public_key: PublicKey::try_from(&s[..]).unwrap(), handshake_hash: h })
        }
    }
    pub static mut HK: (usize, usize, [u8; 32], usize, [u8; 32], usize, usize) = (0, 0, [0; 32], 0, [0; 32], 0, 0);
    pub static mut HK_OUT: [u8; 32] = [0; 32];
    pub fn hkdf_rec(salt: &[u8], ikm: &[u8], info: &[u8], len: usize) -> Vec<u8> {
        unsafe {
            HK.0 += 1;
            HK.1 = salt.len();
            HK.3 = ikm.len();
            if ikm.len() == 32 { HK.2.copy_from_slice(ikm); }
            HK.5 = info.len();
            if info.len() == 32 { HK.4.copy_from_slice(info); }
            HK.6 = len;
            let o: [u8; 32] = kani::any();
            HK_OUT = o;
            o.to_vec()
        }
    }
    pub static mut DC: (usize, [u8; 32], usize, [u8; 4], usize, u32, usize, usize) = (0, [0; 32], 0, [0; 4], 0, 0, 0, 0); // n, key, keylen, aad, aadlen, cs, consumed_at_call, p_writes_at_call
    pub static mut DC_FAIL: bool = false;
    pub fn decrypt_chunks_rec<T: Read, U: Write>(ciphertext: &mut T, plaintext: &mut U, key: &[u8], aad: &[u8], chunk_size: u32) -> Result<(), DecryptError> {
        unsafe {
            DC.0 += 1;
            DC.2 = key.len();
            if key.len() == 32 { DC.1.copy_from_slice(key); }
            DC.4 = aad.len();
            if aad.len() == 4 { DC.3.copy_from_slice(aad); }
            DC.5 = chunk_size;
            DC.6 = R_CONSUMED;
            DC.7 = P_WRITES + P_FLUSHES;
            if DC_FAIL { return Err(DecryptError::ChaPolyDecrypt); }
        }
        let _ = plaintext.write(&[0u8; 1]);
        Ok(())
    }

    /// C01(b)/C03/C05/C09/C13: key_decrypt on ANY bytes of any length 0..140.
    #[kani::proof]
    #[kani::stub(crate::noise_decrypt, noise_decrypt_rec)]
    #[kani::stub(crate::hkdf_sha256, hkdf_rec)]
    #[kani::stub(crate::decrypt::decrypt_chunks, decrypt_chunks_rec)]
    #[kani::stub(core::fmt::write, fmtwrite_cut)]
    #[kani::unwind(130)]
    pub fn hdr_key_decrypt() {
        let data: [u8; 140] = kani::any();
        let len: usize = kani::any();
        kani::assume(len <= 140);
        let (r, rpk): ([u8; 32], [u8; 32]) = (kani::any(), kani::any());
        let nfail: bool = kani::any();
        let cfail: bool = kani::any();
        unsafe { ND_FAIL = nfail; DC_FAIL = cfail; }
        let sk = PrivateKey::try_from(&r[..]).unwrap();
        let pk = PublicKey::try_from(&rpk[..]).unwrap();
        let mut rd = HdrReader { data, len, short: kani::any() };
        let mut w = PCount;
        let res = key_decrypt(&mut rd, &mut w, &sk, &pk, AsymFileFormat::V1);
        let magic_ok = len >= 4 && data[0] == 0x65 && data[1] == 0x67 && data[2] == 0x6b && data[3] == 0x10;
        unsafe {
            assert!(!R_LIMIT, "[LIMIT] header read-call structure outside what this harness models");
            if !magic_ok {
                assert!(res.is_err(), "[C03,C09] a file that does not start with the key-mode magic is rejected");
                assert!(ND.n == 0 && DC.0 == 0 && P_WRITES == 0 && P_FLUSHES == 0, "[C03,C13] ... before anything is decrypted or written");
                assert!(R_CONSUMED <= 4, "[C03,C09] ... after reading at most the 4 magic bytes");
            } else if len < 132 {
                assert!(matches!(res, Err(DecryptError::IORead(_))), "[C03,C09] a truncated header is a read error, not a panic");
                assert!(ND.n == 0 && DC.0 == 0 && P_WRITES == 0 && P_FLUSHES == 0, "[C13] nothing is written for a truncated header");
            } else {
                assert!(ND.n == 1 && ND.consumed_at_call == 132, "[C06] exactly the 132-byte header is read before the handshake is processed");
                assert!(ND.r == r && ND.rpk == rpk, "[C05,C01,C02] the handshake is processed with the caller's recipient key pair");
                assert!(ND.plen == 4 && ND.prologue == [0x65, 0x67, 0x6b, 0x10], "[C06] the prologue is the 4 magic bytes read from the file");
                let mut ok = ND.mlen == 128;
                let mut j = 0;
                while j < 128 { if ND.msg[j] != data[4 + j] { ok = false; } j += 1; }
                assert!(ok, "[C06,C03] the handshake message is bytes 4..132 of the file");
                if nfail {
                    assert!(matches!(res, Err(DecryptError::Other(_))), "[C05,C03] a handshake that does not verify is an error");
                    assert!(DC.0 == 0 && P_WRITES == 0 && P_FLUSHES == 0, "[C13,C04,C05] nothing is written or flushed when the handshake fails");
                } else {
                    assert!(HK.0 == 1 && HK.1 == 0 && HK.3 == 32 && HK.2 == ND_PAYLOAD && HK.5 == 32 && HK.4 == ND_HH && HK.6 == 32, "[C06,C01,C02] file key = HKDF-SHA256(salt empty, ikm = payload key, info = handshake hash, 32)");
                    assert!(DC.0 == 1 && DC.2 == 32 && DC.1 == HK_OUT && DC.4 == 0 && DC.5 == 65536, "[C06,C01,C02,C09] chunks are opened under the file key, empty aad, chunk size 65536");
                    assert!(DC.6 == 132 && DC.7 == 0, "[C04,C13] the chunk loop starts right after the header; nothing was written or flushed before it");
                    match &res {
                        Ok(sender) => { assert!(!cfail && sender.as_bytes() == &ND_SENDER[..], "[C01,C02,C05,C12] success only if every chunk verified; the reported sender is the key the handshake authenticated"); }
                        Err(_) => { assert!(cfail, "[C01,C02] failure only if the chunk loop failed"); }
                    }
                }
            }
        }
        kani::cover!(res.is_ok());
        kani::cover!(magic_ok && len == 131);
        kani::cover!(len == 0);
        kani::cover!(magic_ok && len >= 132 && nfail);
        core::mem::forget(res); core::mem::forget(sk);
    }

    pub static mut SC: (usize, [u8; 4], usize, [u8; 32], usize, usize, usize, usize, usize) = (0, [0; 4], 0, [0; 32], 0, 0, 0, 0, 0);
    pub static mut SC_OUT: [u8; 32] = [0; 32];
    pub fn scrypt_rec(password: &[u8], salt: &[u8], n: usize, r: usize, p: usize, dk_len: usize) -> Vec<u8> {
        unsafe {
            SC.0 += 1;
            SC.2 = password.len();
            let mut j = 0;
            while j < 4 { if j < password.len() { SC.1[j] = password[j]; } j += 1; }
            SC.4 = salt.len();
            if salt.len() == 32 { SC.3.copy_from_slice(salt); }
            SC.5 = n; SC.6 = r; SC.7 = p; SC.8 = dk_len;
            let o: [u8; 32] = kani::any();
            SC_OUT = o;
            o.to_vec()
        }
    }

    /// C02/C03/C09/C13: pass_decrypt on ANY bytes of any length 0..60.
    #[kani::proof]
    #[kani::stub(crate::scrypt::scrypt, scrypt_rec)]
    #[kani::stub(crate::decrypt::decrypt_chunks, decrypt_chunks_rec)]
    #[kani::stub(core::fmt::write, fmtwrite_cut)]
    #[kani::unwind(130)]
    pub fn hdr_pass_decrypt() {
        let data: [u8; 140] = kani::any();
        let len: usize = kani::any();
        kani::assume(len <= 60);
        let pwb: [u8; 4] = kani::any();
        let pl: usize = kani::any();
        kani::assume(pl <= 4);
        let cfail: bool = kani::any();
        unsafe { DC_FAIL = cfail; }
        let mut rd = HdrReader { data, len, short: kani::any() };
        let mut w = PCount;
        let res = pass_decrypt(&mut rd, &mut w, &pwb[..pl], PassFileFormat::V1);
        let magic_ok = len >= 4 && data[0] == 0x65 && data[1] == 0x67 && data[2] == 0x6b && data[3] == 0x20;
        unsafe {
            assert!(!R_LIMIT, "[LIMIT] header read-call structure outside what this harness models");
            if !magic_ok {
                assert!(res.is_err(), "[C03,C09] a file that does not start with the password-mode magic is rejected");
                assert!(SC.0 == 0 && DC.0 == 0 && P_WRITES == 0 && P_FLUSHES == 0 && R_CONSUMED <= 4, "[C03,C09,C13] ... before any key derivation, decryption or write");
            } else if len < 36 {
                assert!(matches!(res, Err(DecryptError::IORead(_))), "[C03,C09] a truncated header is a read error, not a panic");
                assert!(SC.0 == 0 && DC.0 == 0 && P_WRITES == 0 && P_FLUSHES == 0, "[C13,C09] no key derivation and no write for a truncated header");
            } else {
                let mut ok = SC.0 == 1 && SC.2 == pl && SC.4 == 32;
                let mut j = 0;
                while j < 32 { if SC.3[j] != data[4 + j] { ok = false; } j += 1; }
                let mut j = 0;
                while j < 4 { if j < pl && SC.1[j] != pwb[j] { ok = false; } j += 1; }
                assert!(ok, "[C02,C06] the key is scrypt(the caller's password, the salt = bytes 4..36 of the file)");
                assert!(SC.5 == 32768 && SC.6 == 8 && SC.7 == 1 && SC.8 == 32, "[C02,C06,C09] scrypt cost parameters are the constants 32768/8/1, whatever the file says");
                assert!(DC.0 == 1 && DC.2 == 32 && DC.1 == SC_OUT && DC.5 == 65536, "[C02,C06] chunks are opened under the scrypt key, chunk size 65536");
                assert!(DC.4 == 4 && DC.3 == [0x65, 0x67, 0x6b, 0x20], "[C02,C06] chunk aad = the magic bytes");
                assert!(DC.6 == 36 && DC.7 == 0, "[C04,C13] the chunk loop starts right after the 36-byte header; nothing written before");
                assert!(res.is_ok() == !cfail, "[C02,C12] success iff every chunk verified");
            }
        }
        kani::cover!(res.is_ok() && pl == 0);
        kani::cover!(magic_ok && len == 35);
        kani::cover!(len == 0);
        core::mem::forget(res);
    }

    /// C02: decrypting under a key other than the one the file was sealed with (E-KDF: another password => another
    /// key) fails on the very first chunk, for EVERY byte stream, and releases nothing.
    #[kani::proof]
    #[kani::stub(crate::chapoly_decrypt_noise, crate::decrypt::verif_dec::open_tracking)]
    #[kani::stub(crate::verif_common::native, crate::verif_common::native_false)]
    #[kani::unwind(4)]
    pub fn dec_wrong_key_cs2() {
        use crate::decrypt::verif_dec::*;
        let n: usize = kani::any();
        kani::assume(n >= 1 && n <= 2);
        let magic = [0x65u8, 0x67, 0x6b, 0x20];
        unsafe { DEC_AADLEN = 4; BASE = 0; }
        let plen = authentic_file(n, 2, &magic, 0x11, 0);
        let total: usize = kani::any();
        kani::assume(total <= 70);
        let mut r = AnyReader { remaining: total, calls: 0, maxbuf: 0, fault_at: NONE, fault_kind: 3, faulted: false, nat_body: false };
        let mut w = PSink::new();
        let other_key = [0x22u8; 32];
        let res = decrypt_chunks(&mut r, &mut w, &other_key, &magic, 2);
        assert!(res.is_err(), "[C02] under any other key decryption fails");
        assert!(w.writes == 0 && w.flushes == 0 && unsafe { OPENED } == 0, "[C02,C13] ... and releases no plaintext: nothing is written or flushed");
        kani::cover!(matches!(res, Err(DecryptError::ChaPolyDecrypt)));
        core::mem::forget(res);
    }

    /// C09: valid_file_format on any header of any length 0..8.
    #[kani::proof]
    #[kani::unwind(130)]
    pub fn hdr_valid_file_format() {
        let b: [u8; 8] = kani::any();
        let n: usize = kani::any();
        kani::assume(n <= 8);
        let r = valid_file_format(&b[..n]);
        let is = |m: u8| n == 4 && b[0] == 0x65 && b[1] == 0x67 && b[2] == 0x6b && b[3] == m;
        match r {
            Ok(FileFormat::AsymV1) => assert!(is(0x10), "[C06,C03] only 65 67 6B 10 is the key-mode magic"),
            Ok(FileFormat::PassV1) => assert!(is(0x20), "[C06,C03] only 65 67 6B 20 is the password-mode magic"),
            Err(_) => assert!(!is(0x10) && !is(0x20), "[C06] both magics are recognised"),
        }
    }
}
