// Injected (cfg(kani) only) at the end of src/crypto/src/decrypt.rs: child module of `decrypt`,
// sees the private `decrypt_chunks`, read_err/write_err.
//
// H-DEC: the REAL decrypt_chunks
//  (A) on a COMPLETELY UNCONSTRAINED byte stream of unconstrained length (the attacker's file), while the
//      ideal AEAD table holds one authentic file of 1..n chunks with solver-chosen legal chunk lengths;
//  (M) on the byte stream the format model prescribes for that authentic file (conformance direction).
// The plaintext sink asserts, inside every write call, that what is released is the chunk that was just
// authenticated, in order.

#[allow(dead_code, static_mut_refs, unused_imports, unused_variables, unused_mut)]
pub(crate) mod verif_dec {
    use super::*;
    use crate::verif_common::*;
    use crate::vrep;
    use std::io::{Read, Write};

    pub const NONE: usize = usize::MAX;
    pub static mut DEC_AADLEN: usize = 0;
    pub static mut CT_CONSUMED: usize = 0; // ciphertext bytes handed to the decryptor so far
    pub static mut CT_RELEASED: usize = 0; // 32+len of every chunk whose plaintext has been written
    pub static mut MAX_CT_LAG: usize = 0;

    // ---------------------------------------------------------------- the authentic file (table)
    /// Fill the ideal-AEAD table with an authentic file of `n` chunks under key byte `k0`: chunk i has nonce i,
    /// a solver-chosen legal length (1..=cs, final 0..=cs), AAD = aad || BE32(last) || BE32(len), and
    /// unconstrained plaintext / ciphertext / tag. Returns total plaintext length.
    pub fn authentic_file(n: usize, cs: usize, aad: &[u8], k0: u8, base: usize) -> usize {
        let mut plen = 0usize;
        vrep!(4, i, {
            if i < n {
                let l: usize = kani::any();
                kani::assume(l <= cs);
                if i + 1 < n { kani::assume(l >= 1); }
                let pt: [u8; MAXCS] = kani::any();
                let ct: [u8; MAXCS] = kani::any();
                let tag: u128 = kani::any();
                let mut ad = [0u8; 12];
                vrep!(4, j, { if j < aad.len() { ad[j] = aad[j]; } });
                let a = aad.len();
                ad[a + 3] = if i + 1 == n { 1 } else { 0 };
                ad[a + 7] = l as u8;
                tput(base + i, Entry { used: true, key0: k0, nonce: i as u64, adlen: a + 8, ad, ptlen: l, pt, ct, tag });
                plen += l;
            }
        });
        plen
    }

    // ---------------------------------------------------------------- open model with release tracking
    pub static mut OPENED: usize = 0; // number of successful opens
    pub static mut OPEN_ORDER_OK: bool = true; // the k-th successful open matched table entry BASE+k
    pub static mut PENDING: usize = NONE; // table index authenticated and not yet released to the sink
    pub static mut BASE: usize = 0; // table index of chunk 0 of the file being decrypted
    pub fn open_tracking(key: &[u8], nonce: u64, ad: &[u8], ct: &[u8]) -> Result<Vec<u8>, crate::errors::ChaPolyDecryptError> {
        unsafe {
            NOPEN += 1;
            if ct.len() > MAX_AEAD_IN { MAX_AEAD_IN = ct.len(); }
        }
        if ct.len() < 16 { return Err(crate::errors::ChaPolyDecryptError); }
        vrep!(6, i, {
            let e = tget(i);
            if entry_matches(&e, key, nonce, ad, ct) {
                unsafe {
                    if i != BASE + OPENED { OPEN_ORDER_OK = false; }
                    OPENED += 1;
                    PENDING = i;
                }
                return Ok(if e.ptlen == 0 { Vec::new() } else { e.pt[..e.ptlen].to_vec() }); // (to_vec of an empty slice trips a Kani model quirk)
            }
        });
        Err(crate::errors::ChaPolyDecryptError)
    }

    // ---------------------------------------------------------------- plaintext sink that checks every release
    pub struct PSink { pub released: usize, pub len: usize, pub writes: usize, pub flushes: usize, pub flushed_len: usize,
                       pub unauth: bool, pub wrong: bool, pub wfault_at: usize, pub ffault_at: usize, pub fault_kind: u8,
                       pub faulted: bool, pub after_fault: bool }
    impl PSink {
        pub fn new() -> Self {
            PSink { released: 0, len: 0, writes: 0, flushes: 0, flushed_len: 0, unauth: false, wrong: false,
                    wfault_at: NONE, ffault_at: NONE, fault_kind: 3, faulted: false, after_fault: false }
        }
    }
    impl Write for PSink {
        fn write(&mut self, buf: &[u8]) -> std::io::Result<usize> {
            let c = self.writes;
            self.writes += 1;
            if self.faulted { self.after_fault = true; }
            if c == self.wfault_at { self.faulted = true; return Err(io_err(self.fault_kind)); }
            let p = unsafe { PENDING };
            if p == NONE {
                // bytes offered although no authenticated chunk is waiting to be released
                self.unauth = true;
            } else {
                let e = tget(p);
                if buf.len() != e.ptlen { self.wrong = true; }
                vrep!(3, j, { if j < e.ptlen && j < buf.len() && buf[j] != e.pt[j] { self.wrong = true; } });
                unsafe { PENDING = NONE; CT_RELEASED += 32 + e.ptlen; }
                self.released += 1;
            }
            self.len += buf.len();
            Ok(buf.len())
        }
        /// std's write_all specialised to a sink that accepts everything or fails (loop-free); an empty chunk
        /// produces no write call, exactly as with std's loop.
        fn write_all(&mut self, buf: &[u8]) -> std::io::Result<()> {
            if buf.is_empty() {
                // an authenticated empty chunk is "released" without a call
                unsafe { if PENDING != NONE && tget(PENDING).ptlen == 0 { PENDING = NONE; CT_RELEASED += 32; self.released += 1; } }
                return Ok(());
            }
            match self.write(buf) { Ok(_) => Ok(()), Err(e) => Err(e) }
        }
        fn flush(&mut self) -> std::io::Result<()> {
            let c = self.flushes;
            self.flushes += 1;
            if self.faulted { self.after_fault = true; }
            if c == self.ffault_at { self.faulted = true; return Err(io_err(self.fault_kind)); }
            self.flushed_len = self.len;
            Ok(())
        }
    }

    // ---------------------------------------------------------------- (A) the attacker's stream
    /// A byte source of unconstrained content and unconstrained length (<= `remaining`): every byte handed out is
    /// a fresh `kani::any()`. Delivers everything available (so read_exact is one step); can fail at a chosen call.
    pub struct AnyReader { pub remaining: usize, pub calls: usize, pub maxbuf: usize, pub fault_at: usize, pub fault_kind: u8, pub faulted: bool }
    impl AnyReader {
        fn fill(&mut self, buf: &mut [u8], k: usize) {
            vrep!(20, j, { if j < k { buf[j] = kani::any(); } });
            self.remaining -= k;
            unsafe {
                CT_CONSUMED += k;
                let lag = CT_CONSUMED - CT_RELEASED;
                if lag > MAX_CT_LAG { MAX_CT_LAG = lag; }
            }
        }
    }
    impl Read for AnyReader {
        fn read(&mut self, buf: &mut [u8]) -> std::io::Result<usize> {
            let c = self.calls;
            self.calls += 1;
            if buf.len() > self.maxbuf { self.maxbuf = buf.len(); }
            if c == self.fault_at { self.faulted = true; return Err(io_err(self.fault_kind)); }
            let k = if self.remaining < buf.len() { self.remaining } else { buf.len() };
            assert!(k <= 20, "[LIMIT] harness bound: reads <= 20 bytes");
            self.fill(buf, k);
            Ok(k)
        }
        /// std's read_exact specialised to a source that delivers everything available: one step.
        fn read_exact(&mut self, buf: &mut [u8]) -> std::io::Result<()> {
            let c = self.calls;
            self.calls += 1;
            if buf.len() > self.maxbuf { self.maxbuf = buf.len(); }
            if c == self.fault_at {
                self.faulted = true;
                // std retries Interrupted inside read_exact: model the retry as "the fault did not happen"
                if self.fault_kind != 0 { return Err(io_err(self.fault_kind)); }
            }
            assert!(buf.len() <= 20, "[LIMIT] harness bound: reads <= 20 bytes");
            if self.remaining < buf.len() {
                let k = self.remaining;
                self.fill(buf, k);
                return Err(std::io::Error::from(std::io::ErrorKind::UnexpectedEof));
            }
            let k = buf.len();
            self.fill(buf, k);
            Ok(())
        }
    }

    /// Run the real decrypt_chunks on attacker bytes; returns (n, plen, result-is-ok).
    fn dec_attack(cs: usize, maxn: usize, pass_mode: bool, faults: bool) {
        let n: usize = kani::any();
        kani::assume(n >= 1 && n <= maxn);
        let magic = [0x65u8, 0x67, 0x6b, 0x20];
        let aad: &[u8] = if pass_mode { &magic } else { &[] };
        unsafe { DEC_AADLEN = aad.len(); BASE = 0; }
        let plen = authentic_file(n, cs, aad, 0x11, 0);
        let total: usize = kani::any();
        kani::assume(total <= maxn * (32 + cs) + 2);
        let mut r = AnyReader { remaining: total, calls: 0, maxbuf: 0, fault_at: NONE, fault_kind: 3, faulted: false };
        let mut w = PSink::new();
        if faults {
            let which: u8 = kani::any();
            kani::assume(which <= 2);
            let at: usize = kani::any();
            kani::assume(at <= 2 * maxn + 1);
            let kind: u8 = kani::any();
            kani::assume(kind <= 3);
            match which {
                0 => { r.fault_at = at; r.fault_kind = kind; }
                1 => { w.wfault_at = at; w.fault_kind = kind; }
                _ => { w.ffault_at = at; w.fault_kind = kind; }
            }
        }
        let key = [0x11u8; 32];
        let res = decrypt_chunks(&mut r, &mut w, &key, aad, cs as u32);
        let opened = unsafe { OPENED };
        // ---- C04: what has been released, at every point
        assert!(!w.unauth, "[C04,C03] no byte is written unless a chunk has just been authenticated");
        assert!(!w.wrong, "[C04,C03] what is written is exactly the plaintext of the authenticated chunk, whole");
        assert!(unsafe { OPEN_ORDER_OK }, "[C04,C03] chunks authenticate only in their original order (chunk k under nonce k)");
        assert!(w.released <= opened && opened <= n, "[C04] released chunks are a prefix of the authenticated ones");
        assert!(!w.after_fault, "[C04,C10] nothing is written or flushed after a failure has been reported by the sink");
        // ---- C03: acceptance
        if res.is_ok() {
            assert!(opened == n && w.released == n, "[C03,C04] success only after every chunk up to the one flagged final has been authenticated and written");
            assert!(w.len == plen, "[C03] on success the output is the complete original plaintext");
            assert!(r.remaining == 0, "[C03,C04] success only if the ciphertext ends right after the final chunk");
            assert!(unsafe { CT_CONSUMED } == 32 * n + plen, "[C03] an accepted file has exactly the authentic length");
            assert!(w.flushed_len == w.len, "[C10,C12] on success everything written has been flushed");
            assert!(!r.faulted || r.fault_kind == 0, "[C10] success is never reported when a read failed (other than a retried interruption)");
            assert!(!w.faulted, "[C10] success is never reported when a write or flush failed");
        }
        match &res {
            Err(DecryptError::IORead(_)) => { assert!(!w.faulted, "[C10] IORead is not reported for a failing sink"); }
            Err(DecryptError::IOWrite(_)) => { assert!(w.faulted, "[C10] IOWrite reported only for a failing write or flush"); }
            Err(DecryptError::Other(_)) => { assert!(false, "[C09,C10] the chunk loop reports only ChunkLen, ChaPolyDecrypt, UnexpectedData, IORead, IOWrite"); }
            _ => {}
        }
        if w.faulted { assert!(matches!(res, Err(DecryptError::IOWrite(_))), "[C10] a failing write or flush surfaces as IOWrite"); }
        if r.faulted && r.fault_kind != 0 { assert!(res.is_err(), "[C10] a failing read surfaces as an error"); }
        // ---- C09 / C11: bounded work
        assert!(r.maxbuf <= cs + 16, "[C09,C11] no read request exceeds chunk size + 16, whatever the header says");
        assert!(unsafe { MAX_AEAD_IN } <= cs + 16, "[C09,C11] no AEAD input exceeds chunk size + 16");
        assert!(unsafe { MAX_CT_LAG } <= 2 * (cs + 32), "[C11] at most two records of ciphertext consumed beyond what has been released");
        kani::cover!(res.is_ok() && n == maxn);
        kani::cover!(res.is_ok() && n == 1 && plen == 0);
        kani::cover!(res.is_err() && w.released == maxn - 1 && opened == maxn);
        kani::cover!(matches!(res, Err(DecryptError::ChunkLen)));
        kani::cover!(matches!(res, Err(DecryptError::UnexpectedData)));
        kani::cover!(matches!(res, Err(DecryptError::ChaPolyDecrypt)) && w.released >= 1);
        core::mem::forget(res);
    }

    /// C03/C04/C09/C11: cs=2, authentic file of 1..2 chunks, attacker stream of ANY content and any length 0..70.
    #[kani::proof]
    #[kani::stub(crate::chapoly_decrypt_noise, open_tracking)]
    #[kani::unwind(4)]
    pub fn dec_attack_cs2_n2() { dec_attack(2, 2, false, false); }

    /// Same in password mode (aad = magic).
    #[kani::proof]
    #[kani::stub(crate::chapoly_decrypt_noise, open_tracking)]
    #[kani::unwind(4)]
    pub fn dec_attack_cs2_n2_pass() { dec_attack(2, 2, true, false); }

    /// cs=1, 1..3 chunks: deep enough for "drop a middle chunk" / "skip ahead" to be expressible.
    #[kani::proof]
    #[kani::stub(crate::chapoly_decrypt_noise, open_tracking)]
    #[kani::unwind(5)]
    pub fn dec_attack_cs1_n3() { dec_attack(1, 3, false, false); }

    /// cs=3, 1..4 chunks (thorough).
    #[kani::proof]
    #[kani::stub(crate::chapoly_decrypt_noise, open_tracking)]
    #[kani::unwind(6)]
    pub fn dec_attack_cs3_n4() { dec_attack(3, 4, false, false); }

    /// C10 (decrypt side): additionally one fault at a solver-chosen read / write / flush call.
    #[kani::proof]
    #[kani::stub(crate::chapoly_decrypt_noise, open_tracking)]
    #[kani::unwind(4)]
    pub fn dec_faults_cs2_n2() { dec_attack(2, 2, false, true); }

    // ---------------------------------------------------------------- (M) the model's stream
    /// Emits the byte stream the format prescribes for the authentic file in the table: for record i
    ///   8 unconstrained bytes (the advisory counter) || flag || len (as authenticated) || ct || tag.
    /// Delivers exactly what read_exact asks for when the request is a whole header / whole body.
    pub struct ModelReader { pub n: usize, pub ci: usize, pub wi: usize, pub extra: usize, pub limit: bool, pub calls: usize, pub short: bool }
    impl ModelReader {
        fn byte(&self, e: &Entry, wi: usize) -> u8 {
            let a = unsafe { DEC_AADLEN };
            if wi < 8 { kani::any() }
            else if wi < 16 { e.ad[a + wi - 8] }
            else if wi < 16 + e.ptlen { e.ct[wi - 16] }
            else { e.tag.to_le_bytes()[wi - 16 - e.ptlen] }
        }
    }
    impl Read for ModelReader {
        fn read(&mut self, buf: &mut [u8]) -> std::io::Result<usize> {
            self.calls += 1;
            if buf.len() == 0 { return Ok(0); }
            if self.ci >= self.n {
                // after the final record: `extra` trailing bytes
                if self.extra == 0 { return Ok(0); }
                buf[0] = kani::any();
                self.extra -= 1;
                return Ok(1);
            }
            // general byte-wise path (used with short reads): solver-chosen count within the current record
            let e = tget(unsafe { BASE } + self.ci);
            let left = 32 + e.ptlen - self.wi;
            let mut k: usize = if self.short { kani::any() } else { buf.len() };
            kani::assume(k >= 1 && k <= buf.len());
            if k > left { k = left; }
            if k > 8 { k = 8; }
            vrep!(8, j, { if j < k { buf[j] = self.byte(&e, self.wi + j); } });
            self.wi += k;
            if self.wi == 32 + e.ptlen { self.ci += 1; self.wi = 0; }
            unsafe { CT_CONSUMED += k; }
            Ok(k)
        }
    }
    /// Whole-request reader for the conformance direction (loop-free read_exact).
    pub struct ModelReaderExact { pub inner: ModelReader }
    impl Read for ModelReaderExact {
        fn read(&mut self, buf: &mut [u8]) -> std::io::Result<usize> {
            // only the 1-byte end-of-file probe uses read() directly
            let m = &mut self.inner;
            m.calls += 1;
            if m.ci >= m.n && m.wi == 0 {
                if m.extra == 0 || buf.len() == 0 { return Ok(0); }
                buf[0] = kani::any();
                m.extra -= 1;
                return Ok(1);
            }
            m.limit = true;
            Ok(0)
        }
        fn read_exact(&mut self, buf: &mut [u8]) -> std::io::Result<()> {
            let m = &mut self.inner;
            m.calls += 1;
            if m.ci >= m.n { return Err(std::io::Error::from(std::io::ErrorKind::UnexpectedEof)); }
            let e = tget(unsafe { BASE } + m.ci);
            let a = unsafe { DEC_AADLEN };
            if m.wi == 0 && buf.len() == 16 {
                vrep!(8, j, { buf[j] = kani::any(); });
                vrep!(8, j, { buf[8 + j] = e.ad[a + j]; });
                m.wi = 16;
            } else if m.wi == 16 && buf.len() == e.ptlen + 16 {
                let t = e.tag.to_le_bytes();
                let n = e.ptlen;
                vrep!(3, j, { if j < n { buf[j] = e.ct[j]; } });
                vrep!(16, j, { buf[n + j] = t[j]; });
                m.wi = 0;
                m.ci += 1;
            } else {
                m.limit = true;
                return Err(std::io::Error::from(std::io::ErrorKind::Other));
            }
            unsafe { CT_CONSUMED += buf.len(); }
            Ok(())
        }
    }

    /// C01/C06 (conformance direction): EVERY file the format allows - 1..n chunks with any legal chunk lengths
    /// (chunkings the encryptor itself never emits included), any value in the advisory counter field - decrypts
    /// to exactly its plaintext; with trailing bytes it is rejected (UnexpectedData) after... nothing more is written.
    fn dec_model(cs: usize, maxn: usize, pass_mode: bool) {
        let n: usize = kani::any();
        kani::assume(n >= 1 && n <= maxn);
        let magic = [0x65u8, 0x67, 0x6b, 0x20];
        let aad: &[u8] = if pass_mode { &magic } else { &[] };
        unsafe { DEC_AADLEN = aad.len(); BASE = 0; }
        let plen = authentic_file(n, cs, aad, 0x11, 0);
        let extra: usize = kani::any();
        kani::assume(extra <= 1);
        let mut r = ModelReaderExact { inner: ModelReader { n, ci: 0, wi: 0, extra, limit: false, calls: 0, short: false } };
        let mut w = PSink::new();
        let key = [0x11u8; 32];
        let res = decrypt_chunks(&mut r, &mut w, &key, aad, cs as u32);
        assert!(!r.inner.limit, "[LIMIT] read-call structure outside what this harness models");
        assert!(!w.unauth && !w.wrong && unsafe { OPEN_ORDER_OK }, "[C04,C01] only authenticated chunks are written, whole and in order");
        if extra == 0 {
            assert!(res.is_ok(), "[C01,C06] every file conforming to the documented format decrypts successfully, whatever its chunking and counter fields");
            assert!(w.released == n && w.len == plen, "[C01,C06] ... to exactly its plaintext");
            assert!(w.flushed_len == w.len, "[C10,C12] and everything has been flushed");
        } else {
            assert!(matches!(res, Err(DecryptError::UnexpectedData)), "[C03,C04] bytes after the final chunk are reported as UnexpectedData");
        }
        kani::cover!(res.is_ok() && n == maxn && plen == maxn * cs);
        kani::cover!(res.is_ok() && n == 1 && plen == 0);
        kani::cover!(res.is_err());
        core::mem::forget(res);
    }

    #[kani::proof]
    #[kani::stub(crate::chapoly_decrypt_noise, open_tracking)]
    #[kani::unwind(4)]
    pub fn dec_model_cs2_n3() { dec_model(2, 3, false); }

    #[kani::proof]
    #[kani::stub(crate::chapoly_decrypt_noise, open_tracking)]
    #[kani::unwind(4)]
    pub fn dec_model_cs2_n3_pass() { dec_model(2, 3, true); }

    #[kani::proof]
    #[kani::stub(crate::chapoly_decrypt_noise, open_tracking)]
    #[kani::unwind(6)]
    pub fn dec_model_cs3_n5() { dec_model(3, 5, false); }

    /// C10/C01: the authentic stream delivered in solver-chosen SHORT reads (std's real read_exact loop runs):
    /// same result.
    #[kani::proof]
    #[kani::stub(crate::chapoly_decrypt_noise, open_tracking)]
    #[kani::unwind(20)]
    pub fn dec_short_reads_cs1() {
        unsafe { DEC_AADLEN = 0; BASE = 0; }
        let plen = authentic_file(1, 1, &[], 0x11, 0);
        let mut r = ModelReader { n: 1, ci: 0, wi: 0, extra: 0, limit: false, calls: 0, short: true };
        let mut w = PSink::new();
        let key = [0x11u8; 32];
        let res = decrypt_chunks(&mut r, &mut w, &key, &[], 1);
        assert!(res.is_ok(), "[C10,C01] short reads are harmless: decryption succeeds");
        assert!(!w.unauth && !w.wrong && w.released == 1 && w.len == plen, "[C10,C01] ... with exactly the plaintext");
        kani::cover!(r.calls > 6);
        kani::cover!(plen == 1);
        core::mem::forget(res);
    }
}
