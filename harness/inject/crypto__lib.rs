// Injected (cfg(kani) only) at the end of src/crypto/src/lib.rs of a scratch copy of /repo.
// Child modules of the crate root: they see every private item of lib.rs.
//
// verif_common : environment models shared by the other injected modules
// verif_wrap   : C19 / C09 / C06 -- the exported primitive wrappers against orion recorders
// verif_zero   : C20 -- key containers erase on drop (built against the REAL zeroize crate)

// loop-free repetition (harness code must not add loops of its own: DESIGN.md 1.4)
#[allow(unused_macros)]
macro_rules! vrep {
    (2, $j:ident, $b:block) => { { let $j: usize = 0; $b } { let $j: usize = 1; $b } };
    (3, $j:ident, $b:block) => { { let $j: usize = 0; $b } { let $j: usize = 1; $b } { let $j: usize = 2; $b } };
    (4, $j:ident, $b:block) => { vrep!(3, $j, $b); { let $j: usize = 3; $b } };
    (6, $j:ident, $b:block) => { vrep!(4, $j, $b); { let $j: usize = 4; $b } { let $j: usize = 5; $b } };
    (8, $j:ident, $b:block) => { vrep!(6, $j, $b); { let $j: usize = 6; $b } { let $j: usize = 7; $b } };
    (12, $j:ident, $b:block) => { vrep!(8, $j, $b); { let $j: usize = 8; $b } { let $j: usize = 9; $b } { let $j: usize = 10; $b } { let $j: usize = 11; $b } };
    (16, $j:ident, $b:block) => { vrep!(12, $j, $b); { let $j: usize = 12; $b } { let $j: usize = 13; $b } { let $j: usize = 14; $b } { let $j: usize = 15; $b } };
    (20, $j:ident, $b:block) => { vrep!(16, $j, $b); { let $j: usize = 16; $b } { let $j: usize = 17; $b } { let $j: usize = 18; $b } { let $j: usize = 19; $b } };
}
#[allow(unused_imports)]
pub(crate) use vrep;

#[allow(dead_code, static_mut_refs, unused_imports, unused_variables)]
pub(crate) mod verif_common {
    //! E-AEAD at the `chapoly_*_noise` level (ideal AEAD as a table), scripted readers/sinks.
    use crate::errors::ChaPolyDecryptError;
    use std::io::{Read, Write};

    /// `native()` is stubbed to `false` under verification. `cargo kani playback` does not apply
    /// stubs, so there it returns true and harnesses can take their native (real primitive) path.
    pub fn native() -> bool { true }
    pub fn native_false() -> bool { false }

    // ---------------------------------------------------------------- ideal AEAD table
    pub const MAXCS: usize = 3; // largest chunk size any harness uses
    pub const MAXE: usize = 6; // table capacity

    #[derive(Clone, Copy)]
    pub struct Entry {
        pub used: bool,
        pub key0: u8, // first key byte: distinguishes "keys" in multi-key harnesses
        pub nonce: u64,
        pub adlen: usize,
        pub ad: [u8; 12],
        pub ptlen: usize,
        pub pt: [u8; MAXCS],
        pub ct: [u8; MAXCS],
        pub tag: u128,
    }
    pub const EMPTY: Entry = Entry { used: false, key0: 0, nonce: 0, adlen: 0, ad: [0; 12], ptlen: 0, pt: [0; MAXCS], ct: [0; MAXCS], tag: 0 };
    pub static mut TABLE: [Entry; MAXE] = [EMPTY; MAXE];
    pub static mut NSEAL: usize = 0; // number of seal calls logged
    pub static mut NOPEN: usize = 0; // number of open calls
    pub static mut NOPEN_OK: usize = 0; // open calls that returned Ok
    pub static mut LAST_OPEN_OK_LEN: usize = 0;
    pub static mut MAX_AEAD_IN: usize = 0; // largest input length any seal/open saw

    pub fn tget(i: usize) -> Entry {
        unsafe {
            match i { 0 => TABLE[0], 1 => TABLE[1], 2 => TABLE[2], 3 => TABLE[3], 4 => TABLE[4], _ => TABLE[5] }
        }
    }
    pub fn tput(i: usize, e: Entry) {
        unsafe {
            match i { 0 => TABLE[0] = e, 1 => TABLE[1] = e, 2 => TABLE[2] = e, 3 => TABLE[3] = e, 4 => TABLE[4] = e, _ => TABLE[5] = e }
        }
    }

    fn ad_arr(ad: &[u8]) -> [u8; 12] {
        let mut a = [0u8; 12];
        vrep!(12, j, { if j < ad.len() { a[j] = ad[j]; } });
        a
    }

    /// Ideal `chapoly_encrypt_noise`: fresh unconstrained ciphertext bytes and tag, logged.
    pub fn seal_model(key: &[u8], nonce: u64, ad: &[u8], pt: &[u8]) -> Vec<u8> {
        assert!(key.len() == 32, "[C19] AEAD key is 32 bytes");
        assert!(ad.len() <= 12 && pt.len() <= MAXCS, "[LIMIT] harness bound: ad <= 12, pt <= MAXCS");
        let ct: [u8; MAXCS] = kani::any();
        let tag: u128 = kani::any();
        let mut p = [0u8; MAXCS];
        vrep!(3, j, { if j < pt.len() { p[j] = pt[j]; } });
        unsafe {
            assert!(NSEAL < MAXE, "[LIMIT] harness bound: seal calls <= MAXE");
            tput(NSEAL, Entry { used: true, key0: key[0], nonce, adlen: ad.len(), ad: ad_arr(ad), ptlen: pt.len(), pt: p, ct, tag });
            NSEAL += 1;
            if pt.len() > MAX_AEAD_IN { MAX_AEAD_IN = pt.len(); }
        }
        let t = tag.to_le_bytes();
        let n = pt.len();
        let mut out = [0u8; MAXCS + 16];
        vrep!(3, j, { if j < n { out[j] = ct[j]; } });
        vrep!(16, j, { out[n + j] = t[j]; });
        out[..n + 16].to_vec()
    }

    pub fn eq12(a: &[u8; 12], b: &[u8; 12]) -> bool {
        let mut ok = true;
        vrep!(12, j, { if a[j] != b[j] { ok = false; } });
        ok
    }

    pub fn entry_matches(e: &Entry, key: &[u8], nonce: u64, ad: &[u8], ct: &[u8]) -> bool {
        if !(e.used && key.len() == 32 && e.key0 == key[0] && e.nonce == nonce && e.adlen == ad.len() && ad.len() <= 12 && ct.len() == e.ptlen + 16) {
            return false;
        }
        if !eq12(&ad_arr(ad), &e.ad) { return false; }
        let n = e.ptlen;
        vrep!(3, j, { if j < n && ct[j] != e.ct[j] { return false; } });
        // tag compared bytewise (n is one of 0..=MAXCS)
        let t = e.tag.to_le_bytes();
        vrep!(16, j, { if ct[n + j] != t[j] { return false; } });
        true
    }

    /// Ideal `chapoly_decrypt_noise`: Ok(pt) iff (key, nonce, ad, ct||tag) was produced by the
    /// seal model / put in the table; Err otherwise (also for inputs shorter than a tag).
    pub fn open_model(key: &[u8], nonce: u64, ad: &[u8], ct: &[u8]) -> Result<Vec<u8>, ChaPolyDecryptError> {
        unsafe {
            NOPEN += 1;
            if ct.len() > MAX_AEAD_IN { MAX_AEAD_IN = ct.len(); }
        }
        if ct.len() < 16 { return Err(ChaPolyDecryptError); }
        vrep!(6, i, {
            let e = tget(i);
            if entry_matches(&e, key, nonce, ad, ct) {
                unsafe { NOPEN_OK += 1; LAST_OPEN_OK_LEN = e.ptlen; }
                { let mut v = e.pt.to_vec(); v.truncate(e.ptlen); return Ok(v); } // never a capacity-0 Vec: an empty Vec returned from a stub trips a Kani model quirk (bogus dealloc)
            }
        });
        Err(ChaPolyDecryptError)
    }

    // ---------------------------------------------------------------- scripted I/O
    /// Fault kinds a scripted reader/sink can inject.
    pub fn io_err(kind: u8) -> std::io::Error {
        use std::io::ErrorKind::*;
        let k = match kind { 0 => Interrupted, 1 => WouldBlock, 2 => BrokenPipe, _ => Other };
        std::io::Error::from(k)
    }
}

#[allow(dead_code, static_mut_refs, unused_imports, unused_variables)]
pub(crate) mod verif_wrap {
    use super::*;
    use orion::errors::UnknownCryptoError;

    // ---- recorders for orion's AEAD ----------------------------------------------------------
    #[derive(Clone, Copy)]
    pub struct AeadCall { n: usize, key: [u8; 32], nonce: [u8; 12], inp: *const u8, inlen: usize, ad: *const u8, adlen: usize, ad_some: bool, dstlen: usize }
    pub static mut AEAD: AeadCall = AeadCall { n: 0, key: [0; 32], nonce: [0; 12], inp: core::ptr::null(), inlen: 0, ad: core::ptr::null(), adlen: 0, ad_some: false, dstlen: 0 };
    pub static mut FILL: [u8; 4] = [0; 4];
    pub static mut RET_ERR: bool = false;

    fn record(k: &chapoly::SecretKey, n: &chapoly::Nonce, inp: &[u8], ad: Option<&[u8]>, dst: &mut [u8]) {
        unsafe {
            AEAD.n += 1;
            AEAD.key.copy_from_slice(k.unprotected_as_bytes());
            AEAD.nonce.copy_from_slice(n.as_ref());
            AEAD.inp = inp.as_ptr();
            AEAD.inlen = inp.len();
            AEAD.ad_some = ad.is_some();
            if let Some(a) = ad { AEAD.ad = a.as_ptr(); AEAD.adlen = a.len(); }
            AEAD.dstlen = dst.len();
            // the primitive's output: arbitrary bytes (first 4 observed by the harness)
            let f: [u8; 4] = kani::any();
            FILL = f;
            vrep!(4, j, { if j < dst.len() { dst[j] = f[j]; } });
        }
    }
    pub fn seal_rec(k: &chapoly::SecretKey, n: &chapoly::Nonce, pt: &[u8], ad: Option<&[u8]>, dst: &mut [u8]) -> Result<(), UnknownCryptoError> {
        record(k, n, pt, ad, dst);
        // orion's documented errors: dst too small
        if dst.len() < pt.len() + 16 { return Err(UnknownCryptoError); }
        Ok(())
    }
    pub fn open_rec(k: &chapoly::SecretKey, n: &chapoly::Nonce, ct: &[u8], ad: Option<&[u8]>, dst: &mut [u8]) -> Result<(), UnknownCryptoError> {
        record(k, n, ct, ad, dst);
        // orion's documented errors: input shorter than a tag, dst too small; else authentic or not
        if ct.len() < 16 || dst.len() < ct.len() - 16 { return Err(UnknownCryptoError); }
        let e: bool = kani::any();
        unsafe { RET_ERR = e; }
        if e { Err(UnknownCryptoError) } else { Ok(()) }
    }

    const L: usize = 24;

    /// C19/C06: Noise-style seal: nonce = 00000000 || LE64(counter) for EVERY u64 counter,
    /// key/ad/plaintext forwarded untouched, output = what the primitive wrote, pt+16 long.
    #[kani::proof]
    #[kani::stub(orion::hazardous::aead::chacha20poly1305::seal, seal_rec)]
    #[kani::stub(crate::verif_common::native, crate::verif_common::native_false)]
    #[kani::unwind(34)]
    pub fn c19_seal_noise_plumbing() {
        let key: [u8; 32] = kani::any();
        let ctr: u64 = kani::any();
        let buf: [u8; L] = kani::any();
        let ptlen: usize = kani::any();
        let adlen: usize = kani::any();
        kani::assume(ptlen <= 8 && adlen <= 12);
        let pt = &buf[..ptlen];
        let ad = &buf[12..12 + adlen];
        let out = chapoly_encrypt_noise(&key, ctr, ad, pt);
        if crate::verif_common::native() {
            // native replay twin (cargo kani playback: stubs are not applied): compare with the real primitive
            let mut n = [0u8; 12];
            n[4..].copy_from_slice(&ctr.to_le_bytes());
            let mut want = vec![0u8; ptlen + 16];
            chapoly::seal(&chapoly::SecretKey::from_slice(&key).unwrap(), &chapoly::Nonce::from_slice(&n).unwrap(), pt, Some(ad), &mut want).unwrap();
            assert!(out == want, "[C19,C06] native: chapoly_encrypt_noise == RFC 8439 seal under nonce 00000000||LE64(counter)");
            return;
        }
        let c = unsafe { AEAD };
        assert!(c.n == 1, "[C19,C07] exactly one seal per call");
        assert!(c.key == key, "[C19] key forwarded");
        let le = ctr.to_le_bytes();
        assert!(c.nonce[0] == 0 && c.nonce[1] == 0 && c.nonce[2] == 0 && c.nonce[3] == 0, "[C19,C06] nonce starts with 4 zero bytes");
        assert!(c.nonce[4] == le[0] && c.nonce[5] == le[1] && c.nonce[6] == le[2] && c.nonce[7] == le[3]
            && c.nonce[8] == le[4] && c.nonce[9] == le[5] && c.nonce[10] == le[6] && c.nonce[11] == le[7],
            "[C19,C06] nonce ends with the little-endian 64-bit counter");
        assert!(c.inp == pt.as_ptr() && c.inlen == ptlen, "[C19] plaintext forwarded");
        assert!(c.ad_some && c.ad == ad.as_ptr() && c.adlen == adlen, "[C19] associated data forwarded as Some(ad)");
        assert!(c.dstlen == ptlen + 16 && out.len() == ptlen + 16, "[C19,C08] output is plaintext length + 16");
        let f = unsafe { FILL };
        assert!(out[0] == f[0] && out[1] == f[1] && out[2] == f[2] && out[3] == f[3], "[C19] returns the primitive's output");
        kani::cover!(ctr == u64::MAX - 1 && ptlen == 8);
        kani::cover!(ptlen == 0 && adlen == 0);
    }

    /// C19/C06/C09: Noise-style open, same nonce layout; input of ANY length 0..=24 (incl. < 16):
    /// never panics, Err from the primitive or a too-short input is Err, Ok returns its output.
    #[kani::proof]
    #[kani::stub(orion::hazardous::aead::chacha20poly1305::open, open_rec)]
    #[kani::stub(crate::verif_common::native, crate::verif_common::native_false)]
    #[kani::unwind(34)]
    pub fn c19_open_noise_plumbing() {
        let key: [u8; 32] = kani::any();
        let ctr: u64 = kani::any();
        let buf: [u8; L] = kani::any();
        let adb: [u8; 12] = kani::any();
        let ctlen: usize = kani::any();
        let adlen: usize = kani::any();
        kani::assume(ctlen <= L && adlen <= 12);
        let ct = &buf[..ctlen];
        let ad = &adb[..adlen];
        if crate::verif_common::native() {
            // native replay twin: a ciphertext sealed by the real primitive under 00000000||LE64(counter) must open,
            // and the arbitrary input must give the primitive's own verdict (never a panic)
            let mut n = [0u8; 12];
            n[4..].copy_from_slice(&ctr.to_le_bytes());
            let k = chapoly::SecretKey::from_slice(&key).unwrap();
            let nn = chapoly::Nonce::from_slice(&n).unwrap();
            let pt = &buf[..if ctlen >= 16 { ctlen - 16 } else { 0 }];
            let mut sealed = vec![0u8; pt.len() + 16];
            chapoly::seal(&k, &nn, pt, Some(ad), &mut sealed).unwrap();
            let r = chapoly_decrypt_noise(&key, ctr, ad, &sealed);
            assert!(r.is_ok() && r.unwrap() == pt, "[C19,C06] native: chapoly_decrypt_noise opens what RFC 8439 seal produced under nonce 00000000||LE64(counter)");
            let r2 = chapoly_decrypt_noise(&key, ctr, ad, ct);
            let mut dst = vec![0u8; if ctlen >= 16 { ctlen - 16 } else { 0 }];
            let want_ok = ctlen >= 16 && chapoly::open(&k, &nn, ct, Some(ad), &mut dst).is_ok();
            assert!(r2.is_ok() == want_ok, "[C19,C09] native: verdict on arbitrary input equals the primitive's; short input is an error");
            return;
        }
        let r = chapoly_decrypt_noise(&key, ctr, ad, ct);
        let c = unsafe { AEAD };
        if ctlen < 16 {
            assert!(r.is_err(), "[C09,C19] input shorter than a tag is an error, not a panic");
        } else {
            assert!(c.n == 1, "[C19,C03,C02] exactly one open per call: every input of at least 16 bytes is authenticated by the primitive, also a bare tag");
            assert!(c.key == key, "[C19] key forwarded");
            let le = ctr.to_le_bytes();
            assert!(c.nonce[0] == 0 && c.nonce[1] == 0 && c.nonce[2] == 0 && c.nonce[3] == 0, "[C19,C06] nonce starts with 4 zero bytes");
            assert!(c.nonce[4] == le[0] && c.nonce[5] == le[1] && c.nonce[6] == le[2] && c.nonce[7] == le[3]
                && c.nonce[8] == le[4] && c.nonce[9] == le[5] && c.nonce[10] == le[6] && c.nonce[11] == le[7],
                "[C19,C06] nonce ends with the little-endian 64-bit counter");
            assert!(c.inp == ct.as_ptr() && c.inlen == ctlen, "[C19] ciphertext||tag forwarded");
            assert!(c.ad_some && c.ad == ad.as_ptr() && c.adlen == adlen, "[C19] associated data forwarded as Some(ad)");
            assert!(c.dstlen == ctlen - 16, "[C19] plaintext buffer is input length - 16");
            let e = unsafe { RET_ERR };
            assert!(r.is_err() == e, "[C19,C03] primitive's rejection is reported, acceptance is Ok");
            if let Ok(ref p) = r {
                let f = unsafe { FILL };
                assert!(p.len() == ctlen - 16, "[C19] plaintext length");
                assert!(p.len() < 1 || p[0] == f[0], "[C19] returns the primitive's output");
                assert!(p.len() < 4 || p[3] == f[3], "[C19] returns the primitive's output");
            }
        }
        kani::cover!(ctlen == 15);
        kani::cover!(ctlen == 0);
        kani::cover!(r.is_ok() && ctlen == L);
        kani::cover!(r.is_err() && ctlen == 16);
        core::mem::forget(r);
    }

    /// C19/C15: the IETF entry points forward the caller's 12-byte nonce unchanged.
    #[kani::proof]
    #[kani::stub(orion::hazardous::aead::chacha20poly1305::open, open_rec)]
    #[kani::stub(orion::hazardous::aead::chacha20poly1305::seal, seal_rec)]
    #[kani::stub(crate::verif_common::native, crate::verif_common::native_false)]
    #[kani::unwind(34)]
    pub fn c19_ietf_plumbing() {
        let key: [u8; 32] = kani::any();
        let nonce: [u8; 12] = kani::any();
        let buf: [u8; L] = kani::any();
        let adb: [u8; 4] = kani::any();
        let n: usize = kani::any();
        kani::assume(n <= L);
        if crate::verif_common::native() {
            // native replay twin: both directions against the real primitive, for this key/nonce/input
            let k = chapoly::SecretKey::from_slice(&key).unwrap();
            let nn = chapoly::Nonce::from_slice(&nonce).unwrap();
            let m = if n <= 8 { n } else { 8 };
            let mut want = vec![0u8; m + 16];
            chapoly::seal(&k, &nn, &buf[..m], Some(&adb), &mut want).unwrap();
            assert!(chapoly_encrypt_ietf(&key, &nonce, &buf[..m], &adb) == want, "[C19,C15] native: chapoly_encrypt_ietf == RFC 8439 seal");
            let r = chapoly_decrypt_ietf(&key, &nonce, &buf[..n], &adb);
            let mut dst = vec![0u8; if n >= 16 { n - 16 } else { 0 }];
            let want_ok = n >= 16 && chapoly::open(&k, &nn, &buf[..n], Some(&adb), &mut dst).is_ok();
            assert!(r.is_ok() == want_ok, "[C19,C09,C15] native: chapoly_decrypt_ietf accepts exactly what RFC 8439 open accepts; short input is an error");
            let r3 = chapoly_decrypt_ietf(&key, &nonce, &want, &adb);
            assert!(r3.is_ok() && r3.unwrap() == &buf[..m], "[C19,C15] native: open inverts seal");
            return;
        }
        if kani::any() {
            kani::assume(n <= 8);
            let out = chapoly_encrypt_ietf(&key, &nonce, &buf[..n], &adb);
            let c = unsafe { AEAD };
            assert!(c.n == 1 && c.key == key && c.nonce == nonce, "[C19,C15] seal gets the caller's key and nonce");
            assert!(c.inp == buf.as_ptr() && c.inlen == n && c.ad_some && c.ad == adb.as_ptr() && c.adlen == 4, "[C19,C15] seal gets plaintext and Some(aad)");
            assert!(out.len() == n + 16 && c.dstlen == n + 16, "[C19] output length");
        } else {
            let r = chapoly_decrypt_ietf(&key, &nonce, &buf[..n], &adb);
            let c = unsafe { AEAD };
            if n < 16 {
                assert!(r.is_err(), "[C09,C19] input shorter than a tag is an error, not a panic");
            } else {
                assert!(c.n == 1 && c.key == key && c.nonce == nonce, "[C19,C15,C03] open gets the caller's key and nonce (every input of at least 16 bytes is authenticated by the primitive, also a bare tag)");
                assert!(c.inp == buf.as_ptr() && c.inlen == n && c.ad_some && c.ad == adb.as_ptr() && c.adlen == 4, "[C19,C15] open gets ciphertext and Some(aad)");
                assert!(r.is_err() == unsafe { RET_ERR }, "[C19,C15] rejection reported");
            }
            kani::cover!(n == 0);
            kani::cover!(n == 15);
            kani::cover!(n == L && r.is_ok());
            core::mem::forget(r);
        }
    }

    // ---- X25519 ------------------------------------------------------------------------------
    pub static mut DH_SK: [u8; 32] = [0; 32];
    pub static mut DH_PK_EQ: bool = false;
    pub static mut DH_N: usize = 0;
    pub static mut DH_OUT: [u8; 32] = [0; 32];
    pub static mut DH_ERR: bool = false;
    pub static mut DH_WANT_PK: [u8; 32] = [0; 32];
    pub fn ka_rec(sk: &orion_x25519::PrivateKey, pk: &orion_x25519::PublicKey) -> Result<orion_x25519::SharedKey, UnknownCryptoError> {
        unsafe {
            DH_N += 1;
            DH_SK.copy_from_slice(sk.unprotected_as_bytes());
            let want = DH_WANT_PK;
            DH_PK_EQ = *pk == orion_x25519::PublicKey::from(want);
            let e: bool = kani::any();
            DH_ERR = e;
            if e { return Err(UnknownCryptoError); }
            let o: [u8; 32] = kani::any();
            DH_OUT = o;
            Ok(orion_x25519::SharedKey::from(o))
        }
    }

    /// C19/C05: x25519(k,u) hands exactly (k,u) to the primitive; its refusal (all-zero result)
    /// becomes DhError, never a value; PrivateKey::diffie_hellman is the same call.
    #[kani::proof]
    #[kani::stub(orion::hazardous::ecc::x25519::key_agreement, ka_rec)]
    #[kani::unwind(34)]
    pub fn c19_x25519_plumbing() {
        let k: [u8; 32] = kani::any();
        let u: [u8; 32] = kani::any();
        unsafe { DH_WANT_PK = u; }
        let via_method: bool = kani::any();
        let r = if via_method {
            let sk = PrivateKey::try_from(&k[..]).unwrap();
            let pk = PublicKey::try_from(&u[..]).unwrap();
            let r = sk.diffie_hellman(&pk);
            core::mem::forget(sk);
            r
        } else {
            x25519(&k, &u)
        };
        unsafe {
            assert!(DH_N == 1, "[C19] one key agreement per call");
            // orion stores the scalar clamped as RFC 7748 prescribes
            let mut kc = k;
            kc[0] &= 248; kc[31] &= 127; kc[31] |= 64;
            assert!(DH_SK == kc, "[C19,C05] private scalar forwarded (clamped per RFC 7748)");
            assert!(DH_PK_EQ, "[C19,C05] public u-coordinate forwarded");
            assert!(r.is_err() == DH_ERR, "[C19,C05] all-zero refusal is reported as DhError");
            if let Ok(ref v) = r {
                assert!(v.len() == 32, "[C19] shared secret is 32 bytes");
                assert!(v[0] == DH_OUT[0] && v[31] == DH_OUT[31] && v[13] == DH_OUT[13], "[C19] returns the primitive's shared secret");
            }
        }
        kani::cover!(r.is_ok() && via_method);
        kani::cover!(r.is_err() && !via_method);
        core::mem::forget(r);
    }

    // ---- HKDF / HMAC / SHA-256 ---------------------------------------------------------------
    #[derive(Clone, Copy)]
    pub struct Slice3 { n: usize, a: *const u8, alen: usize, b: *const u8, blen: usize, c: *const u8, clen: usize, csome: bool, dst: usize }
    pub static mut HK: Slice3 = Slice3 { n: 0, a: core::ptr::null(), alen: 0, b: core::ptr::null(), blen: 0, c: core::ptr::null(), clen: 0, csome: false, dst: 0 };
    pub fn hkdf_rec(salt: &[u8], ikm: &[u8], info: Option<&[u8]>, dst: &mut [u8]) -> Result<(), UnknownCryptoError> {
        unsafe {
            HK.n += 1;
            HK.a = salt.as_ptr(); HK.alen = salt.len();
            HK.b = ikm.as_ptr(); HK.blen = ikm.len();
            HK.csome = info.is_some();
            if let Some(i) = info { HK.c = i.as_ptr(); HK.clen = i.len(); }
            HK.dst = dst.len();
            let f: [u8; 4] = kani::any();
            FILL = f;
            vrep!(4, j, { if j < dst.len() { dst[j] = f[j]; } });
        }
        Ok(())
    }

    /// C19/C06: hkdf_sha256(salt, ikm, info, len) = orion HKDF-SHA256(salt, ikm, Some(info)) -> len bytes.
    #[kani::proof]
    #[kani::stub(orion::hazardous::kdf::hkdf::sha256::derive_key, hkdf_rec)]
    #[kani::unwind(40)]
    pub fn c19_hkdf_plumbing() {
        let buf: [u8; 36] = kani::any();
        let (sl, il, nl, ol): (usize, usize, usize, usize) = (kani::any(), kani::any(), kani::any(), kani::any());
        kani::assume(sl <= 12 && il <= 12 && nl <= 12 && ol >= 1 && ol <= 34);
        let out = hkdf_sha256(&buf[..sl], &buf[12..12 + il], &buf[24..24 + nl], ol);
        let c = unsafe { HK };
        assert!(c.n == 1, "[C19] one derive_key call");
        assert!(c.a == buf.as_ptr() && c.alen == sl, "[C19,C06] salt is the first argument");
        assert!(c.b == buf[12..].as_ptr() && c.blen == il, "[C19,C06] ikm is the second argument");
        assert!(c.csome && c.c == buf[24..].as_ptr() && c.clen == nl, "[C19,C06] info is passed as Some(info)");
        assert!(c.dst == ol && out.len() == ol, "[C19] requested output length");
        let f = unsafe { FILL };
        assert!(out[0] == f[0] && (ol < 4 || out[3] == f[3]), "[C19] returns the primitive's output");
        kani::cover!(sl == 0 && nl == 0 && ol == 34);
    }

    // ---- Noise HKDF (two outputs) over an uninterpreted HMAC: lockstep record/replay ----------
    #[derive(Clone, Copy)]
    pub struct HmacCall { key: [u8; 32], keylen: usize, data: [u8; 34], datalen: usize, out: [u8; 32] }
    pub const HM0: HmacCall = HmacCall { key: [0; 32], keylen: 0, data: [0; 34], datalen: 0, out: [0; 32] };
    pub static mut HM: [HmacCall; 3] = [HM0; 3];
    pub static mut HMN: usize = 0;
    pub fn hmac_model(key: &[u8], data: &[u8]) -> Vec<u8> {
        assert!(key.len() <= 32 && data.len() <= 34, "harness bound");
        let out: [u8; 32] = kani::any();
        let mut c = HmacCall { key: [0; 32], keylen: key.len(), data: [0; 34], datalen: data.len(), out };
        c.key[..key.len()].copy_from_slice(key);
        c.data[..data.len()].copy_from_slice(data);
        unsafe {
            assert!(HMN < 3, "[C06] Noise HKDF makes exactly three HMAC calls");
            match HMN { 0 => HM[0] = c, 1 => HM[1] = c, _ => HM[2] = c }
            HMN += 1;
        }
        out.to_vec()
    }

    /// C06/C05: hkdf_noise(ck, ikm) is Noise's HKDF with two outputs, for EVERY function HMAC could be:
    /// t = HMAC(ck, ikm); o1 = HMAC(t, 01); o2 = HMAC(t, o1 || 02).
    #[kani::proof]
    #[kani::stub(crate::hmac_sha256, hmac_model)]
    #[kani::unwind(36)]
    pub fn c06_hkdf_noise_lockstep() {
        let ck: [u8; 32] = kani::any();
        let ikmb: [u8; 32] = kani::any();
        let il: usize = if kani::any() { 0 } else { 32 };
        let (o1, o2) = hkdf_noise(&ck, &ikmb[..il]);
        unsafe {
            assert!(HMN == 3, "[C06] Noise HKDF makes exactly three HMAC calls");
            assert!(HM[0].keylen == 32 && HM[0].key == ck, "[C06,C05] temp_key = HMAC(chaining_key, ...)");
            assert!(HM[0].datalen == il && (il == 0 || HM[0].data[..32] == ikmb), "[C06,C05] temp_key = HMAC(..., input key material)");
            assert!(HM[1].keylen == 32 && HM[1].key == HM[0].out, "[C06] output1 keyed with temp_key");
            assert!(HM[1].datalen == 1 && HM[1].data[0] == 0x01, "[C06] output1 = HMAC(temp_key, 0x01)");
            assert!(HM[2].keylen == 32 && HM[2].key == HM[0].out, "[C06] output2 keyed with temp_key");
            assert!(HM[2].datalen == 33 && HM[2].data[..32] == HM[1].out && HM[2].data[32] == 0x02, "[C06] output2 = HMAC(temp_key, output1 || 0x02)");
            assert!(o1.len() == 32 && o1[..] == HM[1].out, "[C06] first result is output1");
            assert!(o2.len() == 32 && o2[..] == HM[2].out, "[C06] second result is output2");
        }
        kani::cover!(il == 0);
        kani::cover!(il == 32);
    }

    // ---- constants ---------------------------------------------------------------------------
    /// C06/C02/C09: the frozen constants.
    #[kani::proof]
    pub fn c06_constants() {
        assert!(CHUNK_SIZE == 65536, "[C06,C09,C11] chunk size is 65536");
        assert!(SCRYPT_N == 32768 && SCRYPT_R == 8 && SCRYPT_P == 1, "[C06,C02,C09] scrypt parameters are 32768/8/1");
        assert!(TAG_SIZE == 16, "[C06] tag size is 16");
        assert!(crate::encrypt::verif_enc::prologue() == [0x65, 0x67, 0x6b, 0x10], "[C06] key-mode magic");
        assert!(crate::encrypt::verif_enc::pass_magic() == [0x65, 0x67, 0x6b, 0x20], "[C06] password-mode magic");
    }
}

// C07: secure_random hands out fresh CSPRNG output on every call.
#[allow(dead_code, static_mut_refs, unused_imports, unused_variables, unused_mut)]
pub(crate) mod verif_rng {
    use super::*;
    pub static mut FILLS: usize = 0;
    /// E-RNG: every byte the CSPRNG produces is fresh. Modelled by stamping each 32-byte block it fills with a unique
    /// serial number (first 8 bytes), the rest unconstrained: two blocks are equal iff they are the same block.
    pub static mut SERIAL: u64 = 1;
    pub fn fill_model(dest: &mut [u8]) -> Result<(), getrandom::Error> {
        unsafe {
            FILLS += 1;
            let mut off = 0;
            while off + 32 <= dest.len() {
                let r: [u8; 24] = kani::any();
                dest[off..off + 8].copy_from_slice(&SERIAL.to_be_bytes());
                dest[off + 8..off + 32].copy_from_slice(&r);
                SERIAL += 1;
                off += 32;
            }
        }
        Ok(())
    }
    /// Nine consecutive 32-byte draws (more than any plausible internal buffer of 256 bytes holds) are pairwise
    /// different and each is exactly 32 bytes of CSPRNG output.
    #[kani::proof]
    #[kani::stub(getrandom::fill, fill_model)]
    #[kani::unwind(40)]
    pub fn c07_secure_random_fresh() {
        let mut serials = [0u64; 9];
        let mut i = 0;
        while i < 9 {
            let v = secure_random(32);
            assert!(v.len() == 32, "[C07] secure_random(32) returns 32 bytes");
            serials[i] = u64::from_be_bytes(v[..8].try_into().unwrap());
            assert!(serials[i] != 0, "[C07] every byte returned was produced by the CSPRNG");
            let mut j = 0;
            while j < i { assert!(serials[j] != serials[i], "[C07] no two draws return the same CSPRNG output (no ephemeral key, payload key, private key or salt is ever handed out twice)"); j += 1; }
            i += 1;
        }
    }
}

// C20: key containers erase on drop. Built against the REAL zeroize crate (E-ZERO is NOT applied to these
// harnesses). Heap-backed PrivateKey: the deallocator is replaced by an inspector that looks at every block
// at the moment it is released. Inline PayloadKey: drop_in_place on a ManuallyDrop slot, then read back.
#[allow(dead_code, static_mut_refs, unused_imports, unused_variables, unused_mut)]
pub(crate) mod verif_zero {
    use super::*;
    use core::alloc::Layout;
    use core::ptr::NonNull;

    pub static mut FREED_32: usize = 0; // 32-byte blocks released
    pub static mut DIRTY_32: usize = 0; // ... of which still held a non-zero byte
    pub fn dealloc_inspect(ptr: NonNull<u8>, layout: Layout) {
        unsafe {
            if layout.size() == 32 {
                FREED_32 += 1;
                let p = ptr.as_ptr();
                let mut dirty = false;
                let mut j = 0;
                while j < 32 { if *p.add(j) != 0 { dirty = true; } j += 1; }
                if dirty { DIRTY_32 += 1; }
            }
            // the block itself is intentionally not returned to the allocator model (no reuse in these harnesses)
        }
    }
    pub static mut RNG_BYTES: [u8; 32] = [0; 32];
    pub fn fill_model(dest: &mut [u8]) -> Result<(), getrandom::Error> {
        unsafe {
            let b: [u8; 32] = kani::any();
            RNG_BYTES = b;
            if dest.len() == 32 { dest.copy_from_slice(&b); }
        }
        Ok(())
    }

    /// PrivateKey built by try_from, cloned, both dropped in either order: every 32-byte block released is all-zero
    /// at release time, for ALL key bytes.
    #[kani::proof]
    #[kani::stub(alloc::alloc::dealloc_nonnull, dealloc_inspect)]
    #[kani::unwind(34)]
    pub fn c20_private_key_try_from_clone() {
        let k: [u8; 32] = kani::any();
        let a = PrivateKey::try_from(&k[..]).unwrap();
        let b = a.clone();
        assert!(b.as_bytes() == &k[..], "[C20] a clone holds the same secret (so it must be erased too)");
        if kani::any() { drop(a); drop(b); } else { drop(b); drop(a); }
        unsafe {
            assert!(FREED_32 >= 1, "[C20] the secret lived in (at least) one 32-byte heap block that has now been released");
            assert!(DIRTY_32 == 0, "[C20] every private-key block is all zero when it is released");
        }
        kani::cover!(k[0] == 0 && k[5] != 0);
        kani::cover!(k[31] == 0xff);
    }

    /// PrivateKey::generate(): the block holding the CSPRNG output is erased before release.
    #[kani::proof]
    #[kani::stub(alloc::alloc::dealloc_nonnull, dealloc_inspect)]
    #[kani::stub(getrandom::fill, fill_model)]
    #[kani::unwind(34)]
    pub fn c20_private_key_generate() {
        let a = PrivateKey::generate();
        assert!(a.as_bytes() == unsafe { &RNG_BYTES[..] }, "[C20,C07] a generated key is exactly one 32-byte CSPRNG draw");
        drop(a);
        unsafe { assert!(FREED_32 == 1 && DIRTY_32 == 0, "[C20] a generated private key is all zero when its block is released"); }
        kani::cover!(unsafe { RNG_BYTES[7] } != 0);
    }

    /// PayloadKey (inline array): after drop its 32 bytes read back as zero; same for a clone.
    #[kani::proof]
    #[kani::unwind(34)]
    pub fn c20_payload_key() {
        let k: [u8; 32] = kani::any();
        let mut slot = core::mem::ManuallyDrop::new(PayloadKey::new(&k));
        let mut slot2 = core::mem::ManuallyDrop::new((*slot).clone());
        assert!(slot2.as_bytes() == &k[..], "[C20] a clone holds the same secret");
        let first: bool = kani::any();
        unsafe {
            if first { core::mem::ManuallyDrop::drop(&mut slot); core::mem::ManuallyDrop::drop(&mut slot2); }
            else { core::mem::ManuallyDrop::drop(&mut slot2); core::mem::ManuallyDrop::drop(&mut slot); }
            let p = &*slot as *const PayloadKey as *const u8;
            let q = &*slot2 as *const PayloadKey as *const u8;
            let mut j = 0;
            while j < 32 {
                assert!(*p.add(j) == 0, "[C20] a dropped payload key reads back as all zero");
                assert!(*q.add(j) == 0, "[C20] a dropped payload-key clone reads back as all zero");
                j += 1;
            }
        }
        kani::cover!(k[0] == 0 && k[1] != 0);
    }

    /// Zeroizing::new(Vec) as used for file keys / scrypt keys / DH secrets: block erased before release.
    #[kani::proof]
    #[kani::stub(alloc::alloc::dealloc_nonnull, dealloc_inspect)]
    #[kani::unwind(34)]
    pub fn c20_zeroizing_vec() {
        let k: [u8; 32] = kani::any();
        let v = zeroize::Zeroizing::new(k.to_vec());
        drop(v);
        unsafe { assert!(FREED_32 == 1 && DIRTY_32 == 0, "[C20] a Zeroizing<Vec<u8>> key buffer is all zero when released"); }
    }
}
