// Injected (cfg(kani) only) at the end of src/ffi/src/lib.rs.
// C18 (C ABI): the exported scrypt() hands its arguments to kestrel_crypto::scrypt unchanged and in order and
// writes exactly dk_len bytes at derived_key, nothing around it.
#[allow(dead_code, static_mut_refs, unused_imports, unused_variables, unused_mut)]
pub(crate) mod verif_ffi {
    use super::*;
    pub static mut ARGS: (usize, usize, usize, usize, usize, usize) = (0, 0, 0, 0, 0, 0);
    pub static mut PTRS: (*const u8, *const u8) = (core::ptr::null(), core::ptr::null());
    pub static mut PW0: u8 = 0;
    pub static mut SALT0: u8 = 0;
    pub static mut OUT: [u8; 8] = [0; 8];
    pub static mut CALLS: usize = 0;
    pub fn scrypt_rec(password: &[u8], salt: &[u8], n: usize, r: usize, p: usize, dk_len: usize) -> Vec<u8> {
        unsafe {
            CALLS += 1;
            ARGS = (password.len(), salt.len(), n, r, p, dk_len);
            PTRS = (password.as_ptr(), salt.as_ptr());
            if password.len() > 0 { PW0 = password[0]; }
            if salt.len() > 0 { SALT0 = salt[0]; }
            let o: [u8; 8] = kani::any();
            OUT = o;
            let mut v = o.to_vec();
            v.truncate(if dk_len < 8 { dk_len } else { 8 });
            v
        }
    }

    #[kani::proof]
    #[kani::stub(kestrel_crypto::scrypt::scrypt, scrypt_rec)]
    #[kani::unwind(14)]
    pub fn c18_ffi_scrypt() {
        let pw: [u8; 4] = kani::any();
        let salt: [u8; 4] = kani::any();
        let (pl, sl): (usize, usize) = (kani::any(), kani::any());
        kani::assume(pl <= 4 && sl <= 4);
        let (n, r, p): (u32, u32, u32) = (kani::any(), kani::any(), kani::any());
        let dk_len: usize = kani::any();
        kani::assume(dk_len >= 1 && dk_len <= 8);
        let guard: [u8; 12] = kani::any();
        let mut buf = guard; // [0..2) guard | [2..2+dk_len) output | rest guard
        unsafe {
            scrypt(pw.as_ptr(), pl, salt.as_ptr(), sl, n, r, p, buf.as_mut_ptr().add(2), dk_len);
            assert!(CALLS == 1, "[C18] one scrypt computation per call");
            assert!(ARGS.0 == pl && ARGS.1 == sl, "[C18] password and salt lengths forwarded");
            assert!(pl == 0 || (PTRS.0 == pw.as_ptr() && PW0 == pw[0]), "[C18] password bytes forwarded");
            assert!(sl == 0 || (PTRS.1 == salt.as_ptr() && SALT0 == salt[0]), "[C18] salt bytes forwarded (also when the password is empty)");
            assert!(ARGS.2 == n as usize && ARGS.3 == r as usize && ARGS.4 == p as usize, "[C18] N, r, p forwarded in this order");
            assert!(ARGS.5 == dk_len, "[C18] requested length forwarded");
            let mut j = 0;
            while j < 12 {
                if j >= 2 && j < 2 + dk_len { assert!(buf[j] == OUT[j - 2], "[C18] exactly the derived key is written into the caller's buffer"); }
                else { assert!(buf[j] == guard[j], "[C18] nothing outside the requested dk_len bytes is touched"); }
                j += 1;
            }
        }
        kani::cover!(pl == 0 && sl == 4 && dk_len == 8);
        kani::cover!(dk_len == 1);
    }
}
