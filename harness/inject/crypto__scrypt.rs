// Injected (cfg(kani) only) at the end of src/crypto/src/scrypt.rs: child module, sees the private
// salsa_xor / block_mix / integer / smix / scrypt.
//
// C18, modular: each level is compared with the RFC 7914 pseudo-code with the level below abstracted as an
// ARBITRARY function (lockstep record/replay: the k-th call must present exactly the arguments the RFC
// prescribes and gets fresh unconstrained output), so the levels compose to "scrypt == RFC 7914" for
// every interpretation of the lower level, and level 1 pins Salsa20/8 itself bit for bit.

#[allow(dead_code, static_mut_refs, unused_imports, unused_variables, unused_mut)]
pub(crate) mod verif_scrypt {
    use super::*;
    use crate::vrep;

    macro_rules! rep32 { ($j:ident, $b:block) => { vrep!(16, l, { let $j: usize = l; $b }); vrep!(16, l, { let $j: usize = 16 + l; $b }); }; }

    // ------------------------------------------------------------------ level 1: Salsa20/8 core
    // RFC 7914 section 3, transcribed from the RFC's C code (R(a,b) = rotate left)
    fn rl(a: u32, b: u32) -> u32 { (a << b) | (a >> (32 - b)) }
    fn salsa20_8_ref(b: &mut [u32; 16]) {
        let mut x = *b;
        vrep!(4, _round, {
            x[ 4] ^= rl(x[ 0].wrapping_add(x[12]), 7);  x[ 8] ^= rl(x[ 4].wrapping_add(x[ 0]), 9);
            x[12] ^= rl(x[ 8].wrapping_add(x[ 4]),13);  x[ 0] ^= rl(x[12].wrapping_add(x[ 8]),18);
            x[ 9] ^= rl(x[ 5].wrapping_add(x[ 1]), 7);  x[13] ^= rl(x[ 9].wrapping_add(x[ 5]), 9);
            x[ 1] ^= rl(x[13].wrapping_add(x[ 9]),13);  x[ 5] ^= rl(x[ 1].wrapping_add(x[13]),18);
            x[14] ^= rl(x[10].wrapping_add(x[ 6]), 7);  x[ 2] ^= rl(x[14].wrapping_add(x[10]), 9);
            x[ 6] ^= rl(x[ 2].wrapping_add(x[14]),13);  x[10] ^= rl(x[ 6].wrapping_add(x[ 2]),18);
            x[ 3] ^= rl(x[15].wrapping_add(x[11]), 7);  x[ 7] ^= rl(x[ 3].wrapping_add(x[15]), 9);
            x[11] ^= rl(x[ 7].wrapping_add(x[ 3]),13);  x[15] ^= rl(x[11].wrapping_add(x[ 7]),18);
            x[ 1] ^= rl(x[ 0].wrapping_add(x[ 3]), 7);  x[ 2] ^= rl(x[ 1].wrapping_add(x[ 0]), 9);
            x[ 3] ^= rl(x[ 2].wrapping_add(x[ 1]),13);  x[ 0] ^= rl(x[ 3].wrapping_add(x[ 2]),18);
            x[ 6] ^= rl(x[ 5].wrapping_add(x[ 4]), 7);  x[ 7] ^= rl(x[ 6].wrapping_add(x[ 5]), 9);
            x[ 4] ^= rl(x[ 7].wrapping_add(x[ 6]),13);  x[ 5] ^= rl(x[ 4].wrapping_add(x[ 7]),18);
            x[11] ^= rl(x[10].wrapping_add(x[ 9]), 7);  x[ 8] ^= rl(x[11].wrapping_add(x[10]), 9);
            x[ 9] ^= rl(x[ 8].wrapping_add(x[11]),13);  x[10] ^= rl(x[ 9].wrapping_add(x[ 8]),18);
            x[12] ^= rl(x[15].wrapping_add(x[14]), 7);  x[13] ^= rl(x[12].wrapping_add(x[15]), 9);
            x[14] ^= rl(x[13].wrapping_add(x[12]),13);  x[15] ^= rl(x[14].wrapping_add(x[13]),18);
        });
        vrep!(16, i, { b[i] = b[i].wrapping_add(x[i]); });
    }

    /// salsa_xor(tmp, in, out): out = tmp' = Salsa20/8(tmp XOR in), for ALL 2 x 16 words.
    #[kani::proof]
    #[kani::unwind(6)]
    pub fn c18_salsa_equiv() {
        let tmp0: [u32; 16] = kani::any();
        let inn: [u32; 16] = kani::any();
        let mut tmp = tmp0;
        let mut out = [0u32; 16];
        salsa_xor(&mut tmp, &inn, &mut out);
        let mut b = [0u32; 16];
        vrep!(16, i, { b[i] = tmp0[i] ^ inn[i]; });
        salsa20_8_ref(&mut b);
        vrep!(16, i, {
            assert!(out[i] == b[i], "[C18] salsa_xor output = Salsa20/8(tmp XOR in) (RFC 7914 section 3)");
            assert!(tmp[i] == b[i], "[C18] salsa_xor leaves the same value in tmp (the running X of BlockMix)");
        });
    }

    // ------------------------------------------------------------------ level 2: scryptBlockMix over an arbitrary H
    pub static mut SX_IN: [[u32; 16]; 6] = [[0; 16]; 6];
    pub static mut SX_OUT: [[u32; 16]; 6] = [[0; 16]; 6];
    pub static mut SX_N: usize = 0;
    /// H as an uninterpreted function: logs its argument (tmp XOR in), returns fresh unconstrained 16 words in tmp and out.
    pub fn salsa_model(tmp: &mut [u32], inn: &[u32], out: &mut [u32]) {
        let mut x = [0u32; 16];
        vrep!(16, j, { x[j] = tmp[j] ^ inn[j]; });
        let y: [u32; 16] = kani::any();
        unsafe {
            assert!(SX_N < 6, "[C18] BlockMix makes exactly 2r Salsa20/8 calls");
            let k = SX_N;
            SX_IN[k] = x;
            SX_OUT[k] = y;
            SX_N += 1;
        }
        vrep!(16, j, { tmp[j] = y[j]; out[j] = y[j]; });
    }

    /// RFC 7914 section 4: X = B[2r-1]; for i in 0..2r: X = H(X xor B[i]); Y[i] = X;  B' = Y[0],Y[2],..,Y[2r-2],Y[1],Y[3],..,Y[2r-1]
    fn block_mix_lockstep(r: usize) {
        let b: [u32; 96] = kani::any(); // 2r blocks of 16 words used
        let mut out = [0u32; 96];
        let mut tmp = [0u32; 16];
        block_mix(&mut tmp, &b[..32 * r], &mut out[..32 * r], r);
        unsafe {
            assert!(SX_N == 2 * r, "[C18] BlockMix makes exactly 2r Salsa20/8 calls");
            let mut k = 0;
            while k < 2 * r {
                let mut j = 0;
                while j < 16 {
                    let xprev = if k == 0 { b[(2 * r - 1) * 16 + j] } else { SX_OUT[k - 1][j] };
                    assert!(SX_IN[k][j] == xprev ^ b[k * 16 + j], "[C18] BlockMix step k hashes X xor B[k], starting from X = B[2r-1]");
                    let pos = if k % 2 == 0 { k / 2 } else { r + k / 2 };
                    assert!(out[pos * 16 + j] == SX_OUT[k][j], "[C18] BlockMix output order is Y0,Y2,...,Y1,Y3,...");
                    j += 1;
                }
                k += 1;
            }
        }
    }
    #[kani::proof]
    #[kani::stub(salsa_xor, salsa_model)]
    #[kani::unwind(18)]
    pub fn c18_blockmix_r1() { block_mix_lockstep(1); }
    #[kani::proof]
    #[kani::stub(salsa_xor, salsa_model)]
    #[kani::unwind(18)]
    pub fn c18_blockmix_r2() { block_mix_lockstep(2); }
    #[kani::proof]
    #[kani::stub(salsa_xor, salsa_model)]
    #[kani::unwind(18)]
    pub fn c18_blockmix_r3() { block_mix_lockstep(3); }

    // ------------------------------------------------------------------ level 3: scryptROMix over an arbitrary BlockMix (r = 1)
    pub static mut BM_IN: [[u32; 32]; 8] = [[0; 32]; 8];
    pub static mut BM_OUT: [[u32; 32]; 8] = [[0; 32]; 8];
    pub static mut BM_N: usize = 0;
    pub static mut BM_R_OK: bool = true;
    pub fn bm_model(tmp: &mut [u32], inn: &[u32], out: &mut [u32], r: usize) {
        let mut x = [0u32; 32];
        x.copy_from_slice(&inn[..32]);
        let y: [u32; 32] = kani::any();
        unsafe {
            if r != 1 { BM_R_OK = false; }
            assert!(BM_N < 8, "[C18] ROMix makes exactly 2N BlockMix calls");
            let k = BM_N;
            BM_IN[k] = x;
            BM_OUT[k] = y;
            BM_N += 1;
        }
        out[..32].copy_from_slice(&y);
    }

    /// RFC 7914 section 5: X = B; for i in 0..N: V[i] = X; X = BlockMix(X);
    ///                     for i in 0..N: j = Integerify(X) mod N; X = BlockMix(X xor V[j]);  B' = X
    /// with B read/written as little-endian 32-bit words and Integerify = the last 64-byte block's first 8 bytes, little-endian.
    fn romix_lockstep(n: usize) {
        let b0: [u8; 128] = kani::any();
        let mut b = b0;
        let mut v = [0u32; 32 * 4];
        let mut x = [0u32; 32];
        let mut y = [0u32; 32];
        smix(&mut b, 1, n, &mut v[..32 * n], &mut x, &mut y);
        unsafe {
            assert!(BM_R_OK, "[C18] BlockMix is called with the caller's r");
            assert!(BM_N == 2 * n, "[C18] ROMix makes exactly 2N BlockMix calls");
            // phase 1: V[i] = X; X = BlockMix(X)
            let mut i = 0;
            while i < n {
                let mut j = 0;
                while j < 32 {
                    let want = if i == 0 { u32::from_le_bytes([b0[4 * j], b0[4 * j + 1], b0[4 * j + 2], b0[4 * j + 3]]) } else { BM_OUT[i - 1][j] };
                    assert!(BM_IN[i][j] == want, "[C18] ROMix phase 1: X starts as B (little-endian words) and X = BlockMix(X)");
                    assert!(v[i * 32 + j] == want, "[C18] ROMix phase 1: V[i] = X before mixing");
                    j += 1;
                }
                i += 1;
            }
            // phase 2: j = Integerify(X) mod N; X = BlockMix(X xor V[j])
            let mut i = 0;
            while i < n {
                let k = n + i;
                let prev = BM_OUT[k - 1];
                let jj = ((prev[16] as u64 | ((prev[17] as u64) << 32)) & (n as u64 - 1)) as usize;
                let mut j = 0;
                while j < 32 {
                    assert!(BM_IN[k][j] == prev[j] ^ v[jj * 32 + j], "[C18] ROMix phase 2: X = BlockMix(X xor V[Integerify(X) mod N]), Integerify = LE64 of the last block's first 8 bytes");
                    j += 1;
                }
                i += 1;
            }
            let last = BM_OUT[2 * n - 1];
            let mut j = 0;
            while j < 32 {
                let w = last[j].to_le_bytes();
                assert!(b[4 * j] == w[0] && b[4 * j + 1] == w[1] && b[4 * j + 2] == w[2] && b[4 * j + 3] == w[3], "[C18] ROMix result is X written back as little-endian words");
                j += 1;
            }
        }
    }
    #[kani::proof]
    #[kani::stub(block_mix, bm_model)]
    #[kani::unwind(34)]
    pub fn c18_romix_n2() { romix_lockstep(2); }
    #[kani::proof]
    #[kani::stub(block_mix, bm_model)]
    #[kani::unwind(34)]
    pub fn c18_romix_n4() { romix_lockstep(4); }

    // ------------------------------------------------------------------ level 4: the scrypt envelope over arbitrary PBKDF2 and ROMix
    #[derive(Clone, Copy)]
    pub struct PbCall { pw: [u8; 8], pw_zero_tail: bool, salt_ptr: *const u8, salt_len: usize, salt8: [u8; 8], iters: usize, dst: usize, fill: [u8; 4] }
    pub const PB0: PbCall = PbCall { pw: [0; 8], pw_zero_tail: true, salt_ptr: core::ptr::null(), salt_len: 0, salt8: [0; 8], iters: 0, dst: 0, fill: [0; 4] };
    pub static mut PB: [PbCall; 2] = [PB0; 2];
    pub static mut PB_N: usize = 0;
    pub fn pbkdf2_model(password: &pbkdf2::Password, salt: &[u8], iterations: usize, dst: &mut [u8]) -> Result<(), orion::errors::UnknownCryptoError> {
        let p = password.unprotected_as_bytes();
        let mut c = PB0;
        vrep!(8, j, { c.pw[j] = p[j]; });
        vrep!(8, j, { if p[8 + j] != 0 { c.pw_zero_tail = false; } });
        c.salt_ptr = salt.as_ptr();
        c.salt_len = salt.len();
        vrep!(8, j, { if j < salt.len() { c.salt8[j] = salt[j]; } });
        c.iters = iterations;
        c.dst = dst.len();
        let f: [u8; 4] = kani::any();
        c.fill = f;
        vrep!(4, j, { if j < dst.len() { dst[j] = f[j]; } });
        unsafe {
            assert!(PB_N < 2, "[C18] scrypt makes exactly two PBKDF2 calls");
            if PB_N == 0 { PB[0] = c; } else { PB[1] = c; }
            PB_N += 1;
        }
        Ok(())
    }
    #[derive(Clone, Copy)]
    pub struct SmCall { off_ok: bool, blen: usize, r: usize, n: usize, vlen: usize, xlen: usize, ylen: usize, first_in: u8, first_out: u8, after_pb: usize }
    pub const SM0: SmCall = SmCall { off_ok: false, blen: 0, r: 0, n: 0, vlen: 0, xlen: 0, ylen: 0, first_in: 0, first_out: 0, after_pb: 0 };
    pub static mut SM: [SmCall; 2] = [SM0; 2];
    pub static mut SM_N: usize = 0;
    pub static mut B_BASE: *const u8 = core::ptr::null();
    #[allow(non_snake_case)]
    pub fn smix_model(b: &mut [u8], r: usize, N: usize, v: &mut [u32], x: &mut [u32], y: &mut [u32]) {
        unsafe {
            assert!(SM_N < 2, "[C18] scrypt makes exactly p ROMix calls");
            if SM_N == 0 { B_BASE = b.as_ptr(); }
            let o: u8 = kani::any();
            let c = SmCall { off_ok: b.as_ptr() == B_BASE.wrapping_add(SM_N * 128 * r), blen: b.len(), r, n: N, vlen: v.len(), xlen: x.len(), ylen: y.len(),
                             first_in: b[0], first_out: o, after_pb: PB_N };
            b[0] = o; // ROMix rewrites the block in place
            if SM_N == 0 { SM[0] = c; } else { SM[1] = c; }
            SM_N += 1;
        }
    }

    /// RFC 7914 section 6: B = PBKDF2(P, S, 1, p*128*r); B[i] = ROMix(r, B[i], N) for i in 0..p; DK = PBKDF2(P, B, 1, dkLen).
    fn scrypt_envelope(n: usize, r: usize, p: usize) {
        let pwb: [u8; 8] = kani::any();
        let sb: [u8; 8] = kani::any();
        let (pl, sl, dk_len): (usize, usize, usize) = (kani::any(), kani::any(), kani::any());
        kani::assume(pl <= 8 && sl <= 8 && dk_len >= 1 && dk_len <= 8);
        let dk = scrypt(&pwb[..pl], &sb[..sl], n, r, p, dk_len);
        unsafe {
            assert!(PB_N == 2, "[C18] scrypt makes exactly two PBKDF2 calls");
            assert!(SM_N == p, "[C18] scrypt makes exactly p ROMix calls");
            vrep!(2, c, {
                vrep!(8, j, { assert!(PB[c].pw[j] == if j < pl { pwb[j] } else { 0 }, "[C18] both PBKDF2 calls are keyed with the password"); });
                assert!(PB[c].pw_zero_tail, "[C18] both PBKDF2 calls are keyed with the password");
                assert!(PB[c].iters == 1, "[C18] PBKDF2 iteration count is 1");
            });
            assert!(PB[0].salt_len == sl, "[C18] first PBKDF2 uses the salt");
            vrep!(8, j, { if j < sl { assert!(PB[0].salt8[j] == sb[j], "[C18] first PBKDF2 uses the salt"); } });
            assert!(PB[0].dst == p * 128 * r, "[C18] B is p*128*r bytes");
            vrep!(2, i, {
                if i < p {
                    assert!(SM[i].off_ok && SM[i].blen >= 128 * r, "[C18] ROMix i works on block i of B, in order");
                    assert!(SM[i].r == r && SM[i].n == n, "[C18] ROMix gets (r, N)");
                    assert!(SM[i].vlen == 32 * n * r && SM[i].xlen == 32 * r && SM[i].ylen == 32 * r, "[C18] ROMix scratch sizes: V = 128*r*N bytes, X = Y = 128*r bytes");
                    assert!(SM[i].after_pb == 1, "[C18] ROMix runs between the two PBKDF2 calls");
                }
            });
            assert!(SM[0].first_in == PB[0].fill[0], "[C18] ROMix input is the PBKDF2 output");
            assert!(PB[1].salt_ptr == B_BASE && PB[1].salt_len == p * 128 * r, "[C18] second PBKDF2 is salted with the whole mixed B");
            assert!(PB[1].salt8[0] == SM[0].first_out, "[C18] second PBKDF2 sees the mixed B");
            assert!(PB[1].dst == dk_len && dk.len() == dk_len, "[C18] derived key has the requested length");
            vrep!(4, j, { if j < dk_len { assert!(dk[j] == PB[1].fill[j], "[C18] derived key is the second PBKDF2 output"); } });
        }
        kani::cover!(pl == 0 && sl == 0);
        kani::cover!(pl == 8 && dk_len == 8);
    }
    #[kani::proof]
    #[kani::stub(smix, smix_model)]
    #[kani::stub(orion::hazardous::kdf::pbkdf2::sha256::derive_key, pbkdf2_model)]
    #[kani::unwind(4)]
    pub fn c18_envelope_n2_r1_p1() { scrypt_envelope(2, 1, 1); }
    #[kani::proof]
    #[kani::stub(smix, smix_model)]
    #[kani::stub(orion::hazardous::kdf::pbkdf2::sha256::derive_key, pbkdf2_model)]
    #[kani::unwind(4)]
    pub fn c18_envelope_n4_r2_p2() { scrypt_envelope(4, 2, 2); }

    // ------------------------------------------------------------------ the public wrapper
    pub static mut W_ARGS: (usize, usize, usize, usize, usize, usize) = (0, 0, 0, 0, 0, 0);
    pub static mut W_PTRS: (*const u8, *const u8) = (core::ptr::null(), core::ptr::null());
    pub fn scrypt_rec(password: &[u8], salt: &[u8], n: usize, r: usize, p: usize, dk_len: usize) -> Vec<u8> {
        unsafe {
            W_ARGS = (password.len(), salt.len(), n, r, p, dk_len);
            W_PTRS = (password.as_ptr(), salt.as_ptr());
        }
        vec![0x5a; dk_len]
    }
    /// kestrel_crypto::scrypt(password, salt, n, r, p, len) forwards its arguments unchanged and in order.
    #[kani::proof]
    #[kani::stub(scrypt, scrypt_rec)]
    #[kani::unwind(10)]
    pub fn c18_public_wrapper() {
        let pw: [u8; 4] = kani::any();
        let salt: [u8; 4] = kani::any();
        let (n, r, p): (u32, u32, u32) = (kani::any(), kani::any(), kani::any());
        let len: usize = kani::any();
        kani::assume(len <= 8);
        let out = crate::scrypt(&pw, &salt, n, r, p, len);
        unsafe {
            assert!(W_PTRS.0 == pw.as_ptr() && W_ARGS.0 == 4 && W_PTRS.1 == salt.as_ptr() && W_ARGS.1 == 4, "[C18,C02,C15] password and salt forwarded");
            assert!(W_ARGS.2 == n as usize && W_ARGS.3 == r as usize && W_ARGS.4 == p as usize, "[C18,C02,C15] N, r, p forwarded in this order, zero-extended");
            assert!(W_ARGS.5 == len && out.len() == len, "[C18] output length forwarded");
        }
    }
}
