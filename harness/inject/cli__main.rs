// Injected (cfg(kani) only) at the end of src/cli/src/main.rs.
// C12: the process exit status is 1 exactly when the requested operation reported an error.
// Counter type for the harness statics (Kani 0.68 defect, DESIGN 7.9): liballoc's constant `Cap::ZERO` - 8 zero bytes,
// alignment 8 - is compiled to a read of ONE static of the program whose initialiser has exactly those bytes and that
// alignment (which one could not be predicted: neither the first nor the last by name). A `usize` counter initialised to 0
// is such a static, and once it is incremented every `Vec::new()` has a phantom capacity. Z8 has another size and alignment,
// so a Z8 static can never be conflated with that constant; env_guard() checks at the end of every CLI harness that
// fresh containers still have capacity 0.
#[allow(dead_code)]
#[repr(C, align(16))]
pub struct Z8(pub usize);
#[allow(dead_code, static_mut_refs, unused_imports, unused_variables, unused_mut)]
pub(crate) mod verif_main {
    use super::*;
    pub static mut TRY_ERR: bool = false;
    pub static mut EXIT_CALLS: crate::Z8 = crate::Z8(0);
    pub static mut EPRINTS: crate::Z8 = crate::Z8(0);
    pub fn try_main_model() -> Result<(), anyhow::Error> {
        unsafe { if TRY_ERR { Err(anyhow::Error::msg("failed")) } else { Ok(()) } }
    }
    pub fn exit_model(code: i32) -> ! {
        unsafe {
            EXIT_CALLS.0 += 1;
            assert!(TRY_ERR, "[C12] exit(..) is called only when the operation failed");
            assert!(code == 1, "[C12] a failed operation exits with status 1");
        }
        kani::assume(false);
        loop {}
    }
    pub fn eprint_cut(_a: core::fmt::Arguments<'_>) { unsafe { EPRINTS.0 += 1; } }
    pub fn bt_cut() -> std::backtrace::Backtrace { std::backtrace::Backtrace::disabled() }
    pub fn fmtwrite_cut(_o: &mut dyn core::fmt::Write, _a: core::fmt::Arguments<'_>) -> core::fmt::Result { Ok(()) }
    pub fn format_cut(_a: core::fmt::Arguments<'_>) -> String { String::from("F") }

    #[kani::proof]
    #[kani::stub(try_main, try_main_model)]
    #[kani::stub(std::process::exit, exit_model)]
    #[kani::stub(std::io::_eprint, eprint_cut)]
    #[kani::stub(std::backtrace::Backtrace::capture, bt_cut)]
    #[kani::stub(core::fmt::write, fmtwrite_cut)]
    #[kani::stub(alloc::fmt::format, format_cut)]
    #[kani::unwind(4)]
    pub fn main_exit_status() {
        unsafe { TRY_ERR = kani::any(); }
        main();
        // main() returned normally => process exit status 0
        unsafe {
            assert!(!TRY_ERR, "[C12] returning normally (exit status 0) happens only when the operation succeeded");
            assert!(EXIT_CALLS.0 == 0, "[C12] success does not call exit");
        }
        kani::cover!(unsafe { !TRY_ERR });
        crate::keyring::verif_keyring::env_guard();
    }

    /// C09/C12: slice_args never panics and returns the tail.
    #[kani::proof]
    #[kani::unwind(6)]
    pub fn main_slice_args() {
        let all = ["k", "enc", "x", "y"];
        let n: usize = kani::any();
        kani::assume(n <= 4);
        let idx: usize = kani::any();
        kani::assume(idx <= 6);
        let s = slice_args(&all[..n], idx);
        assert!(s.len() == if n > idx { n - idx } else { 0 }, "[C09,C12] slice_args returns the remainder after idx, or the empty slice");
        crate::keyring::verif_keyring::env_guard();
    }
}
