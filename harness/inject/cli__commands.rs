// Injected (cfg(kani) only) at the end of src/cli/src/commands.rs: child module of `commands`, sees
// OnDemandFile, open_input/open_output/open_keyring, ask_pass, confirm_password, ZeroedString, ...
//
// H-CMD: the REAL command functions with
//   E-FS  : an in-memory model of the one output path (File::create = create-or-TRUNCATE; OpenOptions append;
//           write at the handle position), existence of the input path, std::fs::read of the keyring;
//   E-OS  : tty state, password prompts / environment as unconstrained results;
//   E-RNG : secure_random returns fresh unconstrained bytes and logs every draw;
//   E-CUT : message formatting and backtrace capture produce nothing (message CONTENT is not the subject);
//   the library entry points (key_encrypt, key_decrypt, pass_*) are recorders that perform a solver-chosen number
//   of writes to the sink they are handed and return a solver-chosen result.

#[allow(dead_code, static_mut_refs, unused_imports, unused_variables, unused_mut)]
pub(crate) mod verif_cmd {
    use super::*;
    use crate::keyring::verif_keyring::{mk_keyring, mk_pk, mk_sk};
    use crate::keyring::{EncodedPk, Key};
    use kestrel_crypto::errors::{DecryptError, EncryptError};
    use kestrel_crypto::PublicKey;
    use std::os::fd::FromRawFd;

    /// loop-free comparison of 32-byte arrays (array `==` is a memcmp loop; the commands iterate over heap lists, so
    /// the global unwind bound must stay small)
    pub fn eq32(a: &[u8; 32], b: &[u8; 32]) -> bool {
        u128::from_le_bytes(a[..16].try_into().unwrap()) == u128::from_le_bytes(b[..16].try_into().unwrap())
            && u128::from_le_bytes(a[16..].try_into().unwrap()) == u128::from_le_bytes(b[16..].try_into().unwrap())
    }

    // ---------------------------------------------------------------- E-CUT
    pub fn fmtwrite_cut(_o: &mut dyn core::fmt::Write, _a: core::fmt::Arguments<'_>) -> core::fmt::Result { Ok(()) }
    pub fn format_cut(_a: core::fmt::Arguments<'_>) -> String { String::from("F") }
    pub fn bt_cut() -> std::backtrace::Backtrace { std::backtrace::Backtrace::disabled() }
    pub static mut PRINTS: crate::Z8 = crate::Z8(0);
    pub static mut EPRINTS: crate::Z8 = crate::Z8(0);
    pub fn print_cut(_a: core::fmt::Arguments<'_>) { unsafe { PRINTS.0 += 1; } }
    pub fn eprint_cut(_a: core::fmt::Arguments<'_>) { unsafe { EPRINTS.0 += 1; } }

    // ---------------------------------------------------------------- E-FS: the output path "o"
    pub const N: usize = 8;
    pub struct Fs { pub exists: bool, pub len: usize, pub data: [u8; N], pub creates: usize, pub appends_opened: usize, pub pos: usize, pub append: bool,
                    pub overflow: bool, pub writes: usize, pub flushes: usize, pub removes: usize, pub opens: usize }
    pub static mut FS: Fs = Fs { exists: false, len: 0, data: [0; N], creates: 0, appends_opened: 0, pos: 0, append: false, overflow: false, writes: 0, flushes: 0, removes: 0, opens: 0 };
    pub static mut IN_EXISTS: bool = true; // the input path "i"
    pub static mut OO_APPEND: bool = false;
    pub static mut OO_CREATE: bool = false;
    pub static mut OO_TRUNC: bool = false;
    pub static mut OO_WRITE: bool = false;
    pub static mut IN_OPENS: crate::Z8 = crate::Z8(0);

    pub fn create_model<P: AsRef<Path>>(_p: P) -> std::io::Result<File> {
        unsafe { FS.exists = true; FS.len = 0; FS.pos = 0; FS.append = false; FS.creates += 1; FS.opens += 1; Ok(File::from_raw_fd(7)) }
    }
    pub fn open_model<P: AsRef<Path>>(_p: P) -> std::io::Result<File> {
        unsafe { IN_OPENS.0 += 1; if IN_EXISTS { Ok(File::from_raw_fd(8)) } else { Err(std::io::Error::from(std::io::ErrorKind::NotFound)) } }
    }
    /// unlink / rename on the output path (the only path these harnesses ever hand to a command that could be removed)
    pub fn remove_model<P: AsRef<Path>>(_p: P) -> std::io::Result<()> {
        unsafe {
            FS.removes += 1;
            if FS.exists { FS.exists = false; FS.len = 0; Ok(()) } else { Err(std::io::Error::from(std::io::ErrorKind::NotFound)) }
        }
    }
    pub fn rename_model<P: AsRef<Path>, Q: AsRef<Path>>(_p: P, _q: Q) -> std::io::Result<()> {
        unsafe { FS.removes += 1; FS.exists = false; FS.len = 0; Ok(()) }
    }
    /// lseek on the output descriptor. Linux: a descriptor opened with O_APPEND starts at offset 0 and only moves to the
    /// end of the file when the first write happens (FS.pos is kept that way by oo_open / file_write_model).
    pub fn seek_model(_f: &mut File, pos: std::io::SeekFrom) -> std::io::Result<u64> {
        unsafe {
            let np: i64 = match pos {
                std::io::SeekFrom::Start(n) => n as i64,
                std::io::SeekFrom::Current(d) => FS.pos as i64 + d,
                std::io::SeekFrom::End(d) => FS.len as i64 + d,
            };
            if np < 0 { return Err(std::io::Error::from(std::io::ErrorKind::InvalidInput)); }
            if np as usize > N { FS.overflow = true; return Ok(FS.pos as u64); }
            FS.pos = np as usize;
            Ok(np as u64)
        }
    }
    pub fn stream_position_model(_f: &mut File) -> std::io::Result<u64> { unsafe { Ok(FS.pos as u64) } }
    pub fn stream_len_model(_f: &mut File) -> std::io::Result<u64> { unsafe { Ok(FS.len as u64) } }
    pub fn oo_append(oo: &mut std::fs::OpenOptions, v: bool) -> &mut std::fs::OpenOptions { unsafe { OO_APPEND = v; } oo }
    pub fn oo_create(oo: &mut std::fs::OpenOptions, v: bool) -> &mut std::fs::OpenOptions { unsafe { OO_CREATE = v; } oo }
    pub fn oo_truncate(oo: &mut std::fs::OpenOptions, v: bool) -> &mut std::fs::OpenOptions { unsafe { OO_TRUNC = v; } oo }
    pub fn oo_write(oo: &mut std::fs::OpenOptions, v: bool) -> &mut std::fs::OpenOptions { unsafe { OO_WRITE = v; } oo }
    pub fn oo_mode(oo: &mut std::fs::OpenOptions, _m: u32) -> &mut std::fs::OpenOptions { oo }
    pub fn oo_open<P: AsRef<Path>>(_oo: &std::fs::OpenOptions, _p: P) -> std::io::Result<File> {
        unsafe {
            if !FS.exists && !OO_CREATE { return Err(std::io::Error::from(std::io::ErrorKind::NotFound)); }
            if !(OO_APPEND || OO_WRITE) { return Err(std::io::Error::from(std::io::ErrorKind::InvalidInput)); }
            if !FS.exists { FS.exists = true; FS.len = 0; FS.creates += 1; }
            if OO_TRUNC && !OO_APPEND { FS.len = 0; }
            FS.append = OO_APPEND;
            FS.pos = 0; // Linux: an O_APPEND descriptor reports offset 0 until its first write
            if OO_APPEND { FS.appends_opened += 1; }
            FS.opens += 1; // a writable descriptor on the output path was obtained (whichever API did it)
            Ok(File::from_raw_fd(7))
        }
    }
    pub fn file_write_model(_f: &mut File, buf: &[u8]) -> std::io::Result<usize> {
        unsafe {
            FS.writes += 1;
            if FS.append { FS.pos = FS.len; }
            let room = N - FS.pos;
            let k = if buf.len() > room { FS.overflow = true; room } else { buf.len() };
            let p = FS.pos;
            FS.data[p..p + k].copy_from_slice(&buf[..k]);
            FS.pos += k;
            if FS.pos > FS.len { FS.len = FS.pos; }
            Ok(buf.len())
        }
    }
    pub fn file_flush_model(_f: &mut File) -> std::io::Result<()> { unsafe { FS.flushes += 1; } Ok(()) }
    pub fn ownedfd_drop_model(_f: &mut std::os::fd::OwnedFd) {}
    pub fn exists_model(p: &Path) -> bool {
        let b = p.as_os_str().as_encoded_bytes();
        unsafe { if b.len() > 0 && b[0] == b'i' { IN_EXISTS } else { FS.exists } }
    }

    // ---------------------------------------------------------------- E-OS
    pub static mut TTY_OUT: bool = false;
    pub static mut TTY_IN: bool = false;
    pub fn isatty_model(s: Stream) -> bool { match s { Stream::Stdin => unsafe { TTY_IN }, _ => unsafe { TTY_OUT } } }
    pub static mut ASK_FAIL: bool = false;
    pub static mut ASKS: crate::Z8 = crate::Z8(0);
    pub static mut FS_TOUCHED_AT_ASK: crate::Z8 = crate::Z8(0);
    pub fn ask_pass_model(_prompt: &str, _env: bool) -> Result<ZeroedString, anyhow::Error> {
        unsafe {
            ASKS.0 += 1;
            FS_TOUCHED_AT_ASK.0 = FS.creates + FS.writes + FS.appends_opened;
            if ASK_FAIL { return Err(anyhow::Error::msg("no password")); }
        }
        // (two branches with concrete-length strings: a symbolic-length copy is mis-modelled by the back end)
        if unsafe { PASS_SPACE } { Ok(ZeroedString::new(String::from("p "))) } else { Ok(ZeroedString::new(String::from("p"))) }
    }
    pub static mut PASS_SPACE: bool = false; // the password ends with a space (must reach scrypt unchanged)
    pub static mut NAME_KIND: u8 = 0; // 0 = valid, 1 = empty
    pub fn ask_user_model(_prompt: &str) -> Result<String, anyhow::Error> {
        unsafe { if NAME_KIND == 0 { Ok(String::from("n")) } else { Ok(String::new()) } }
    }

    // ---------------------------------------------------------------- E-RNG + key material recorders
    pub static mut RNG_N: crate::Z8 = crate::Z8(0);
    pub static mut RNG_OUT: [[u8; 32]; 2] = [[0; 32]; 2];
    pub static mut RNG_LEN_OK: bool = true;
    pub fn rng_model(len: usize) -> Vec<u8> {
        unsafe {
            if len != 32 { RNG_LEN_OK = false; }
            assert!(RNG_N.0 < 2, "[LIMIT] harness bound: two CSPRNG draws per command");
            let o: [u8; 32] = kani::any();
            // RNG contract: draws are pairwise distinct
            if RNG_N.0 == 1 { kani::assume(!eq32(&o, &RNG_OUT[0])); }
            RNG_OUT[RNG_N.0] = o;
            RNG_N.0 += 1;
            let mut v = o.to_vec();
            v.truncate(if len < 32 { len } else { 32 });
            v
        }
    }
    pub static mut DERIVE_IN: [u8; 32] = [0; 32];
    pub static mut DERIVE_OUT: [u8; 32] = [0; 32];
    pub static mut DERIVE_N: crate::Z8 = crate::Z8(0);
    pub fn derive_model(sk: &[u8]) -> Result<Vec<u8>, kestrel_crypto::errors::DhError> {
        unsafe {
            DERIVE_N.0 += 1;
            if sk.len() == 32 { DERIVE_IN.copy_from_slice(sk); }
            let o: [u8; 32] = kani::any();
            DERIVE_OUT = o;
            Ok(o.to_vec())
        }
    }
    pub static mut LOCK_N: crate::Z8 = crate::Z8(0);
    pub static mut LOCK_SK: [u8; 32] = [0; 32];
    pub static mut LOCK_PW0: u8 = 0;
    pub static mut LOCK_PW1: u8 = 0;
    pub static mut LOCK_PWLEN: crate::Z8 = crate::Z8(0);
    pub static mut LOCK_SALT: [u8; 32] = [0; 32];
    pub fn lock_model(sk: &PrivateKey, pw: &[u8], salt: [u8; 32]) -> EncodedSk {
        unsafe {
            LOCK_N.0 += 1;
            LOCK_SK.copy_from_slice(sk.as_bytes());
            LOCK_PWLEN.0 = pw.len();
            if pw.len() > 0 { LOCK_PW0 = pw[0]; }
            if pw.len() > 1 { LOCK_PW1 = pw[1]; }
            LOCK_SALT = salt;
        }
        mk_sk("S")
    }
    pub static mut ENCPK_N: crate::Z8 = crate::Z8(0);
    pub static mut ENCPK_IN: [u8; 32] = [0; 32];
    pub fn encpk_model(pk: &PublicKey) -> EncodedPk {
        unsafe { ENCPK_N.0 += 1; ENCPK_IN.copy_from_slice(pk.as_bytes()); }
        mk_pk("P0")
    }
    pub static mut SER_N: crate::Z8 = crate::Z8(0);
    pub fn ser_model(_n: &str, pk: &EncodedPk, sk: &EncodedSk) -> String {
        unsafe { SER_N.0 += 1; }
        String::from("K")
    }
    pub static mut UNLOCK_N: crate::Z8 = crate::Z8(0);
    pub static mut UNLOCK_FAIL: bool = false;
    pub static mut UNLOCK_SK: [u8; 32] = [0; 32];
    pub static mut UNLOCK_PW0: u8 = 0;
    pub static mut UNLOCK_BLOB0: u8 = 0;
    pub fn unlock_model(locked: &EncodedSk, pw: &[u8]) -> Result<PrivateKey, crate::errors::KeyringError> {
        unsafe {
            UNLOCK_N.0 += 1;
            if pw.len() > 0 { UNLOCK_PW0 = pw[0]; }
            let b = locked.as_str().as_bytes();
            if b.len() > 0 { UNLOCK_BLOB0 = b[0]; }
            if UNLOCK_FAIL { return Err(crate::errors::KeyringError::PrivateKeyDecrypt); }
            let k: [u8; 32] = kani::any();
            UNLOCK_SK = k;
            Ok(PrivateKey::try_from(&k[..]).unwrap())
        }
    }
    pub static mut DECPK_FAIL: bool = false;
    pub fn decpk_model(_e: &EncodedPk) -> Result<PublicKey, crate::errors::KeyringError> {
        unsafe { if DECPK_FAIL { return Err(crate::errors::KeyringError::PublicKeyChecksum); } }
        Ok(PublicKey::try_from(&[7u8; 32][..]).unwrap())
    }

    // ================================================================= lemma: OnDemandFile
    /// C13/C04: OnDemandFile creates the file at the first write or flush - never before - and exactly once.
    #[kani::proof]
    #[kani::stub(std::fs::File::create, create_model)]
    #[kani::stub(std::fs::OpenOptions::append, oo_append)]
    #[kani::stub(std::fs::OpenOptions::create, oo_create)]
    #[kani::stub(std::fs::OpenOptions::truncate, oo_truncate)]
    #[kani::stub(std::fs::OpenOptions::write, oo_write)]
    #[kani::stub(std::fs::OpenOptions::open, oo_open)]
    #[kani::stub(<std::fs::OpenOptions as std::os::unix::fs::OpenOptionsExt>::mode, oo_mode)]
    #[kani::stub(<std::fs::File as std::io::Write>::write, file_write_model)]
    #[kani::stub(<std::fs::File as std::io::Write>::flush, file_flush_model)]
    #[kani::stub(<std::os::fd::OwnedFd as std::ops::Drop>::drop, ownedfd_drop_model)]
    #[kani::unwind(6)]
    pub fn cmd_ondemand_file() {
        let pre: bool = kani::any();
        unsafe { FS.exists = pre; FS.len = if pre { 3 } else { 0 }; OO_APPEND = false; OO_CREATE = false; OO_TRUNC = false; OO_WRITE = false; }
        let mut f = OnDemandFile::new("o");
        unsafe { assert!(FS.creates == 0 && FS.exists == pre && FS.len == (if pre { 3 } else { 0 }), "[C13] constructing the output sink touches nothing on disk"); }
        let ops: [u8; 3] = kani::any();
        let mut touched = 0usize;
        let mut i = 0;
        while i < 3 {
            if ops[i] % 3 == 0 { let _ = f.write(&[0x41]); touched += 1; }
            else if ops[i] % 3 == 1 { let _ = f.flush(); touched += 1; }
            unsafe {
                if touched == 0 { assert!(FS.creates == 0 && FS.len == (if pre { 3 } else { 0 }), "[C13] no file is created or truncated before the first write/flush"); }
                else { assert!(FS.opens == 1 && FS.exists, "[C13,C12] the file is opened (created if absent) at the first write or flush, exactly once (also when the first operation is a flush)"); }
            }
            i += 1;
        }
        // whatever was at the path before, the file now holds exactly what was written through this sink
        let written = (if ops[0] % 3 == 0 { 1 } else { 0 }) + (if ops[1] % 3 == 0 { 1 } else { 0 }) + (if ops[2] % 3 == 0 { 1 } else { 0 });
        unsafe { if touched > 0 { assert!(FS.len == written, "[C12,C13,C01,C06,C08] the output file holds exactly the bytes written to it: an existing longer file is replaced, not overwritten in place (no stale tail)"); } }
        core::mem::forget(f);
        crate::keyring::verif_keyring::env_guard();
    }

    // ================================================================= key generate
    /// C14/C13/C16/C07: gen_key(Some(path), env_pass) on an arbitrary prior state of the output path.
    #[kani::proof]
    #[kani::stub(std::fs::File::create, create_model)]
    #[kani::stub(std::fs::OpenOptions::append, oo_append)]
    #[kani::stub(std::fs::OpenOptions::create, oo_create)]
    #[kani::stub(std::fs::OpenOptions::truncate, oo_truncate)]
    #[kani::stub(std::fs::OpenOptions::write, oo_write)]
    #[kani::stub(std::fs::OpenOptions::open, oo_open)]
    #[kani::stub(<std::fs::File as std::io::Write>::write, file_write_model)]
    #[kani::stub(<std::fs::File as std::io::Write>::flush, file_flush_model)]
    #[kani::stub(<std::os::fd::OwnedFd as std::ops::Drop>::drop, ownedfd_drop_model)]
    #[kani::stub(std::path::Path::exists, exists_model)]
    #[kani::stub(std::fs::remove_file, remove_model)]
    #[kani::stub(std::fs::rename, rename_model)]
    #[kani::stub(<std::fs::File as std::io::Seek>::seek, seek_model)]
    #[kani::stub(<std::fs::File as std::io::Seek>::stream_position, stream_position_model)]
    #[kani::stub(<std::fs::File as std::io::Seek>::stream_len, stream_len_model)]
    #[kani::stub(passterm::isatty, isatty_model)]
    #[kani::stub(ask_user_stderr, ask_user_model)]
    #[kani::stub(ask_pass, ask_pass_model)]
    #[kani::stub(read_env_pass, env_pass_model)]
    #[kani::stub(kestrel_crypto::secure_random, rng_model)]
    #[kani::stub(kestrel_crypto::x25519_derive_public, derive_model)]
    #[kani::stub(crate::keyring::Keyring::lock_private_key, lock_model)]
    #[kani::stub(crate::keyring::Keyring::encode_public_key, encpk_model)]
    #[kani::stub(crate::keyring::Keyring::serialize_key, ser_model)]
    #[kani::stub(std::backtrace::Backtrace::capture, bt_cut)]
    #[kani::stub(core::fmt::write, fmtwrite_cut)]
    #[kani::stub(alloc::fmt::format, format_cut)]
    #[kani::stub(std::io::_print, print_cut)]
    #[kani::stub(std::io::_eprint, eprint_cut)]
    #[kani::unwind(10)]
    pub fn cmd_gen_key_fs() {
        let pre_exists: bool = kani::any();
        let pre: [u8; 4] = kani::any();
        let pre_len: usize = kani::any();
        kani::assume(pre_len <= 4);
        let name_kind: u8 = kani::any();
        kani::assume(name_kind <= 1);
        let pw_fail: bool = kani::any();
        unsafe {
            FS.exists = pre_exists;
            FS.len = if pre_exists { pre_len } else { 0 };
            FS.data[..4].copy_from_slice(&pre);
            NAME_KIND = name_kind;
            ASK_FAIL = pw_fail;
            PASS_SPACE = kani::any();
            TTY_OUT = kani::any();
        }
        let r = gen_key(Some(String::from("o")), true);
        let ok = r.is_ok();
        core::mem::forget(r);
        unsafe {
            assert!(!FS.overflow, "[LIMIT] harness bound: file model holds 8 bytes");
            assert!(FS.removes == 0, "[C13,C12] no command ever removes or renames the output path (a failure leaves the authenticated prefix / the old file in place)");
            let plen = if pre_exists { pre_len } else { 0 };
            if name_kind == 1 || pw_fail {
                assert!(!ok, "[C12] an invalid key name or a missing password makes key generation fail");
                assert!(FS.creates == 0 && FS.writes == 0 && FS.appends_opened == 0 && FS.exists == pre_exists && FS.len == plen,
                        "[C13] a key generation that fails before producing a key neither creates nor touches the output file");
            } else {
                assert!(ok, "[C12,C14] key generation succeeds");
                // C14: everything that was there is still there, as a prefix
                assert!(FS.exists && FS.len > plen, "[C14] the new key is added after the existing contents");
                if pre_exists {
                    assert!(FS.creates == 0, "[C14] an existing keyring file is not re-created/truncated");
                    let mut j = 0;
                    while j < 4 { if j < pre_len { assert!(FS.data[j] == pre[j], "[C14] the earlier contents of the keyring are a byte prefix of the new contents"); } j += 1; }
                } else {
                    assert!(FS.creates == 1, "[C14,C13] a new keyring file is created once");
                }
                // C14 "the file parses as a keyring": a section appended to a file whose last line is not terminated must not
                // be glued to that line. `format!` is cut (returns "F"), so the separator-carrying string `format!("\n{}", ..)`
                // shows up as 'F'; a literal '\n' written separately is accepted as well.
                if pre_exists && pre_len > 0 && pre[pre_len - 1] != b'\n' {
                    assert!(FS.data[plen] == b'F' || FS.data[plen] == b'\n', "[C14] a key appended to a keyring whose last line is unterminated starts on a new line (otherwise `[Key]` is glued to the previous value and the file no longer parses)");
                }
                assert!(FS.flushes >= 1, "[C12] the keyring is flushed before success is reported");
                // C07/C16: data flow of the fresh randomness
                assert!(RNG_N.0 == 2 && RNG_LEN_OK, "[C07] key generation makes exactly two 32-byte CSPRNG draws: the private key and the salt");
                assert!(LOCK_N.0 == 1 && eq32(&LOCK_SK, &RNG_OUT[0]) && eq32(&LOCK_SALT, &RNG_OUT[1]), "[C07,C16] the private key is one draw, locked under a salt that is another draw");
                assert!(LOCK_PW0 == b'p' && ((!PASS_SPACE && LOCK_PWLEN.0 == 1) || (PASS_SPACE && LOCK_PWLEN.0 == 2 && LOCK_PW1 == b' ')),
                        "[C16,C14] the key is locked under exactly the password the user gave (leading/trailing whitespace included), so that it unlocks with it");
                assert!(DERIVE_N.0 == 1 && eq32(&DERIVE_IN, &RNG_OUT[0]) && ENCPK_N.0 == 1 && eq32(&ENCPK_IN, &DERIVE_OUT), "[C16] the PublicKey line is the encoding of the X25519 public key of that private key");
                assert!(SER_N.0 == 1, "[C14,C17] one [Key] section is written");
            }
        }
        kani::cover!(ok && pre_exists && pre_len == 4);
        kani::cover!(ok && !pre_exists);
        kani::cover!(!ok && pre_exists);
        crate::keyring::verif_keyring::env_guard();
    }
    pub fn env_pass_model() -> Result<ZeroedString, anyhow::Error> { ask_pass_model("", true) }

    // ================================================================= decrypt / encrypt flows
    pub static mut KR_FAIL: bool = false;
    pub static mut KR_HAS_A_SK: bool = true;
    pub static mut KR_N: usize = 2;
    pub fn open_keyring_model(_loc: Option<String>) -> Result<Keyring, anyhow::Error> {
        unsafe {
            if KR_FAIL { return Err(anyhow::Error::msg("no keyring")); }
            // a fixed two-entry keyring (concrete length: a symbolic number of entries makes every loop over the keys - lookup,
            // reverse lookup, drop glue - a symbolic-exit loop over heap objects, which ran the solver out of memory)
            let mut keys = Vec::with_capacity(2);
            keys.push(Key { name: String::from("a"), public_key: mk_pk("P0"), private_key: if KR_HAS_A_SK { Some(mk_sk("S0")) } else { None } });
            keys.push(Key { name: String::from("b"), public_key: mk_pk("P1"), private_key: None });
            Ok(mk_keyring(keys))
        }
    }
    // the library call: k writes of one byte (+ flush) to the sink it is given, then the chosen result
    pub static mut LIB_CALLS: crate::Z8 = crate::Z8(0);
    pub static mut LIB_WRITES: crate::Z8 = crate::Z8(0);
    pub static mut LIB_FAIL: bool = false;
    pub static mut LIB_FS_TOUCHED_BEFORE: crate::Z8 = crate::Z8(0);
    pub static mut LIB_SENDER: [u8; 32] = [0; 32];
    pub static mut LIB_RECIP_SK: [u8; 32] = [0; 32];
    fn lib_io<U: Write>(w: &mut U) -> bool {
        unsafe {
            LIB_CALLS.0 += 1;
            LIB_FS_TOUCHED_BEFORE.0 = FS.creates + FS.writes + FS.appends_opened;
            let k = LIB_WRITES.0;
            if k >= 1 { if w.write_all(&[0x41]).is_err() || w.flush().is_err() { return false; } }
            if k >= 2 { if w.write_all(&[0x42]).is_err() || w.flush().is_err() { return false; } }
            !LIB_FAIL
        }
    }
    pub fn key_decrypt_model<T: Read, U: Write>(_c: &mut T, p: &mut U, recipient: &PrivateKey, _rp: &PublicKey, _f: AsymFileFormat) -> Result<PublicKey, DecryptError> {
        unsafe { LIB_RECIP_SK.copy_from_slice(recipient.as_bytes()); }
        if lib_io(p) {
            let s: [u8; 32] = kani::any();
            unsafe { LIB_SENDER = s; }
            Ok(PublicKey::try_from(&s[..]).unwrap())
        } else { Err(dec_err()) }
    }
    /// the library's failure: any of its error kinds (solver-chosen), incl. a write failure of every `ErrorKind` a closed
    /// pipe / full disk produces
    fn io_kind() -> std::io::Error {
        let k: u8 = kani::any();
        std::io::Error::from(match k % 4 { 0 => std::io::ErrorKind::BrokenPipe, 1 => std::io::ErrorKind::WriteZero, 2 => std::io::ErrorKind::UnexpectedEof, _ => std::io::ErrorKind::Other })
    }
    fn dec_err() -> DecryptError {
        let k: u8 = kani::any();
        match k % 5 { 0 => DecryptError::ChaPolyDecrypt, 1 => DecryptError::UnexpectedData, 2 => DecryptError::ChunkLen, 3 => DecryptError::IOWrite(io_kind()), _ => DecryptError::IORead(io_kind()) }
    }
    fn enc_err() -> EncryptError {
        let k: u8 = kani::any();
        match k % 3 { 0 => EncryptError::UnexpectedData, 1 => EncryptError::IOWrite(io_kind()), _ => EncryptError::IORead(io_kind()) }
    }
    #[allow(clippy::too_many_arguments)]
    pub fn key_encrypt_model<T: Read, U: Write>(_p: &mut T, c: &mut U, sender: &PrivateKey, _sp: &PublicKey, _r: &PublicKey, e: Option<&PrivateKey>,
                                                ep: Option<&PublicKey>, pk: Option<&kestrel_crypto::PayloadKey>, _f: AsymFileFormat) -> Result<(), EncryptError> {
        unsafe { LIB_RECIP_SK.copy_from_slice(sender.as_bytes()); FRESH_OK = e.is_none() && ep.is_none() && pk.is_none(); }
        if lib_io(c) { Ok(()) } else { Err(enc_err()) }
    }
    pub static mut FRESH_OK: bool = false;
    pub static mut PE_SALT: [u8; 32] = [0; 32];
    pub static mut PE_PW0: u8 = 0;
    pub fn pass_encrypt_model<T: Read, U: Write>(_p: &mut T, c: &mut U, pw: &[u8], salt: [u8; 32], _f: PassFileFormat) -> Result<(), EncryptError> {
        unsafe { PE_SALT = salt; if pw.len() > 0 { PE_PW0 = pw[0]; } }
        if lib_io(c) { Ok(()) } else { Err(enc_err()) }
    }
    pub fn pass_decrypt_model<T: Read, U: Write>(_c: &mut T, p: &mut U, pw: &[u8], _f: PassFileFormat) -> Result<(), DecryptError> {
        unsafe { if pw.len() > 0 { PE_PW0 = pw[0]; } }
        if lib_io(p) { Ok(()) } else { Err(dec_err()) }
    }

    fn setup_common() -> (Option<String>, Option<String>, usize, [u8; 4]) {
        let pre_exists: bool = kani::any();
        let pre: [u8; 4] = kani::any();
        let pre_len: usize = kani::any();
        kani::assume(pre_len <= 4);
        unsafe {
            FS.exists = pre_exists;
            FS.len = if pre_exists { pre_len } else { 0 };
            FS.data[..4].copy_from_slice(&pre);
            IN_EXISTS = kani::any();
            TTY_OUT = kani::any();
            ASK_FAIL = kani::any();
            KR_FAIL = kani::any();
            KR_HAS_A_SK = kani::any();
            KR_N = if kani::any() { 2 } else { 1 };
            UNLOCK_FAIL = kani::any();
            DECPK_FAIL = kani::any();
            LIB_FAIL = kani::any();
            let k: usize = kani::any();
            kani::assume(k <= 2);
            LIB_WRITES.0 = k;
        }
        let infile = if unsafe { USE_STDIN } { None } else { Some(String::from("i")) };
        let outfile = if unsafe { USE_STDOUT } { None } else { Some(String::from("o")) };
        (infile, outfile, if pre_exists { pre_len } else { 0 }, pre)
    }
    /// wiring of the harness: data from stdin instead of a file argument / to stdout instead of -o (concrete per harness)
    pub static mut USE_STDIN: bool = false;
    pub static mut USE_STDOUT: bool = false;
    /// C12 "results do not depend on how I/O is wired": what must hold when stdin / stdout take the place of the files
    fn check_stdio(ok: bool, plen: usize, pre_exists: bool) {
        unsafe {
            if USE_STDOUT {
                assert!(FS.creates == 0 && FS.writes == 0 && FS.exists == pre_exists && FS.len == plen, "[C12,C13] with stdout as destination no file is created or touched");
                if LIB_CALLS.0 == 1 { assert!(STDOUT_WRITES.0 == LIB_WRITES.0, "[C12] everything the library writes reaches stdout"); }
                if TTY_OUT { assert!(LIB_CALLS.0 == 0 && !ok, "[C12] binary output is refused when stdout is a terminal"); }
            }
            if USE_STDIN && TTY_IN { assert!(LIB_CALLS.0 == 0 && !ok, "[C12] reading from stdin is refused when stdin is a terminal (nothing was piped in)"); }
            if !(USE_STDIN && TTY_IN) && !(USE_STDOUT && TTY_OUT) && !ASK_FAIL && (USE_STDIN || IN_EXISTS) && LIB_CALLS.0 == 0 && PRECHECKS_PASS {
                assert!(false, "[C12] with every pre-check passing the operation is carried out whichever way input and output are wired");
            }
        }
    }
    pub static mut PRECHECKS_PASS: bool = true; // set by the key-mode harnesses: keyring / key lookup / unlock all succeed
    /// what C12/C13 demand of every command, given what the recorders saw
    fn check_common(ok: bool, plen: usize, pre: [u8; 4], pre_exists: bool) {
        unsafe {
            assert!(!FS.overflow, "[LIMIT] harness bound: file model holds 8 bytes");
            assert!(FS.removes == 0, "[C13,C12] no command ever removes or renames the output path (a failure leaves the authenticated prefix / the old file in place)");
            assert!(LIB_CALLS.0 <= 1, "[C12] the library entry point is called at most once");
            if LIB_CALLS.0 == 0 {
                assert!(!ok, "[C12] success is never reported without the operation having been carried out");
                assert!(FS.creates == 0 && FS.writes == 0 && FS.exists == pre_exists && FS.len == plen, "[C13] a command that fails before the library call leaves the output path untouched");
            } else {
                assert!(LIB_FS_TOUCHED_BEFORE.0 == 0, "[C13] the output file is neither created nor written before the library call");
                assert!(ok == !LIB_FAIL, "[C12,C10,C03,C04] exit status = result of the library call: no error kind (authentication, trailing data, chunk length, failed read / write / flush) is swallowed, success is never manufactured");
                if LIB_WRITES.0 == 0 || USE_STDOUT {
                    assert!(FS.creates == 0 && FS.exists == pre_exists && FS.len == plen, "[C13] if the library fails before its first write (bad header, wrong key, refused exchange) the output path is untouched");
                } else {
                    assert!(FS.opens == 1 && FS.exists && FS.len == LIB_WRITES.0 && FS.data[0] == 0x41 && (LIB_WRITES.0 < 2 || FS.data[1] == 0x42), "[C13,C12] the output file holds exactly what the library wrote (the authenticated prefix), nothing else");
                }
            }
        }
    }

    // E-OS: the process's stdout as a sink that accepts everything. `Box<dyn Write>` dispatch makes `Stdout` a candidate
    // receiver of every write the library model performs even when the output is a file; std's real implementation
    // (ReentrantLock, ThreadId, LineWriter, futex) is environment.
    pub static mut STDOUT_WRITES: crate::Z8 = crate::Z8(0);
    pub fn stdout_write_model(_s: &mut std::io::Stdout, buf: &[u8]) -> std::io::Result<usize> { unsafe { STDOUT_WRITES.0 += 1; } Ok(buf.len()) }
    pub fn stdout_write_all_model(_s: &mut std::io::Stdout, _buf: &[u8]) -> std::io::Result<()> { unsafe { STDOUT_WRITES.0 += 1; } Ok(()) }
    pub fn stdout_flush_model(_s: &mut std::io::Stdout) -> std::io::Result<()> { Ok(()) }
    pub fn stdout_write_vectored_model(_s: &mut std::io::Stdout, _b: &[std::io::IoSlice<'_>]) -> std::io::Result<usize> { Ok(0) }
    pub fn stdout_is_write_vectored_model(_s: &std::io::Stdout) -> bool { false }
    pub fn stdout_write_all_vectored_model(_s: &mut std::io::Stdout, _b: &mut [std::io::IoSlice<'_>]) -> std::io::Result<()> { Ok(()) }
    pub fn stdout_write_fmt_model(_s: &mut std::io::Stdout, _a: std::fmt::Arguments<'_>) -> std::io::Result<()> { Ok(()) }
    pub fn stdin_read_vectored_model(_s: &mut std::io::Stdin, _b: &mut [std::io::IoSliceMut<'_>]) -> std::io::Result<usize> { Ok(0) }
    pub fn stdin_is_read_vectored_model(_s: &std::io::Stdin) -> bool { false }
    pub fn stdin_read_to_end_model(_s: &mut std::io::Stdin, _b: &mut Vec<u8>) -> std::io::Result<usize> { Ok(0) }
    pub fn stdin_read_to_string_model(_s: &mut std::io::Stdin, _b: &mut String) -> std::io::Result<usize> { Ok(0) }
    pub fn stdin_read_model(_s: &mut std::io::Stdin, _buf: &mut [u8]) -> std::io::Result<usize> { Ok(0) }
    pub fn stdin_read_exact_model(_s: &mut std::io::Stdin, buf: &mut [u8]) -> std::io::Result<()> {
        if buf.is_empty() { Ok(()) } else { Err(std::io::Error::from(std::io::ErrorKind::UnexpectedEof)) }
    }

    /// `std::io::stdout()` / `stdin()`: handles to the process streams. Both are one `&'static` to a lazily initialised
    /// global (OnceLock/futex internals); every method reachable on them is stubbed above, so the reference is never followed.
    pub fn stdout_handle_model() -> std::io::Stdout { unsafe { STDOUT_OPENS.0 += 1; core::mem::transmute::<usize, std::io::Stdout>(0x1000) } }
    pub fn stdin_handle_model() -> std::io::Stdin { unsafe { STDIN_OPENS.0 += 1; core::mem::transmute::<usize, std::io::Stdin>(0x2000) } }
    pub static mut STDOUT_OPENS: crate::Z8 = crate::Z8(0);
    pub static mut STDIN_OPENS: crate::Z8 = crate::Z8(0);

    macro_rules! cmd_stubs { ($f:item) => {
        #[kani::proof]
        #[kani::stub(std::io::stdout, stdout_handle_model)]
        #[kani::stub(std::io::stdin, stdin_handle_model)]
        #[kani::stub(<std::io::Stdout as std::io::Write>::write, stdout_write_model)]
        #[kani::stub(<std::io::Stdout as std::io::Write>::write_all, stdout_write_all_model)]
        #[kani::stub(<std::io::Stdout as std::io::Write>::flush, stdout_flush_model)]
        #[kani::stub(<std::io::Stdout as std::io::Write>::write_vectored, stdout_write_vectored_model)]
        #[kani::stub(<std::io::Stdout as std::io::Write>::is_write_vectored, stdout_is_write_vectored_model)]
        #[kani::stub(<std::io::Stdout as std::io::Write>::write_all_vectored, stdout_write_all_vectored_model)]
        #[kani::stub(<std::io::Stdout as std::io::Write>::write_fmt, stdout_write_fmt_model)]
        #[kani::stub(<std::io::Stdin as std::io::Read>::read_vectored, stdin_read_vectored_model)]
        #[kani::stub(<std::io::Stdin as std::io::Read>::is_read_vectored, stdin_is_read_vectored_model)]
        #[kani::stub(<std::io::Stdin as std::io::Read>::read_to_end, stdin_read_to_end_model)]
        #[kani::stub(<std::io::Stdin as std::io::Read>::read_to_string, stdin_read_to_string_model)]
        #[kani::stub(<std::io::Stdin as std::io::Read>::read, stdin_read_model)]
        #[kani::stub(<std::io::Stdin as std::io::Read>::read_exact, stdin_read_exact_model)]
        #[kani::stub(std::fs::File::create, create_model)]
        #[kani::stub(std::fs::File::open, open_model)]
        #[kani::stub(<std::fs::File as std::io::Write>::write, file_write_model)]
        #[kani::stub(<std::fs::File as std::io::Write>::flush, file_flush_model)]
        #[kani::stub(<std::os::fd::OwnedFd as std::ops::Drop>::drop, ownedfd_drop_model)]
        #[kani::stub(std::path::Path::exists, exists_model)]
        #[kani::stub(std::fs::remove_file, remove_model)]
        #[kani::stub(std::fs::rename, rename_model)]
        #[kani::stub(passterm::isatty, isatty_model)]
        #[kani::stub(ask_pass, ask_pass_model)]
        #[kani::stub(read_env_pass, env_pass_model)]
        #[kani::stub(open_keyring, open_keyring_model)]
        #[kani::stub(kestrel_crypto::secure_random, rng_model)]
        #[kani::stub(crate::keyring::Keyring::unlock_private_key, unlock_model)]
        #[kani::stub(crate::keyring::Keyring::decode_public_key, decpk_model)]
        #[kani::stub(crate::keyring::Keyring::encode_public_key, encpk_model)]
        #[kani::stub(kestrel_crypto::decrypt::key_decrypt, key_decrypt_model)]
        #[kani::stub(kestrel_crypto::encrypt::key_encrypt, key_encrypt_model)]
        #[kani::stub(kestrel_crypto::encrypt::pass_encrypt, pass_encrypt_model)]
        #[kani::stub(kestrel_crypto::decrypt::pass_decrypt, pass_decrypt_model)]
        #[kani::stub(std::backtrace::Backtrace::capture, bt_cut)]
        #[kani::stub(core::fmt::write, fmtwrite_cut)]
        #[kani::stub(alloc::fmt::format, format_cut)]
        #[kani::stub(std::io::_print, print_cut)]
        #[kani::stub(std::io::_eprint, eprint_cut)]
        #[kani::unwind(3)]
        $f
    } }

    /// a one-character name with symbolic content and concrete length (a `String::from(if .. {"a"} else {"b"})` makes the
    /// copy's source pointer symbolic, which the back end handles badly)
    fn name_of(c: u8) -> String { let mut s = String::with_capacity(1); s.push(c as char); s }

    fn decrypt_flow(to: String) -> bool {
        let (infile, outfile, plen, pre) = setup_common();
        let pre_exists = unsafe { FS.exists };
        let r = decrypt(DecryptOptions { infile, to, outfile, keyring: if kani::any() { Some(String::from("k")) } else { None }, env_pass: kani::any() });
        let ok = r.is_ok();
        core::mem::forget(r);
        check_common(ok, plen, pre, pre_exists);
        unsafe {
            if LIB_CALLS.0 == 1 {
                assert!(UNLOCK_N.0 >= 1 && eq32(&LIB_RECIP_SK, &UNLOCK_SK), "[C05,C12] decryption uses the private key unlocked from the named keyring entry");
                if ok { assert!(ENCPK_N.0 == 1 && eq32(&ENCPK_IN, &LIB_SENDER), "[C05,C12] the sender is looked up by the encoding of exactly the key the library authenticated"); }
            }
        }
        ok
    }
    cmd_stubs! {
    /// C12/C13/C05(4): `decrypt -t a` (the entry that may hold a private key).
    pub fn cmd_decrypt_flow() {
        let ok = decrypt_flow(String::from("a"));
        kani::cover!(ok);
        kani::cover!(!ok && unsafe { LIB_CALLS.0 == 1 && LIB_WRITES.0 == 1 });
        kani::cover!(!ok && unsafe { LIB_CALLS.0 == 0 });
        crate::keyring::verif_keyring::env_guard();
    } }
    cmd_stubs! {
    /// C12/C13: `decrypt -t <b|z>`: an entry without private key, or no such entry: always fails before the library call.
    pub fn cmd_decrypt_flow_other() {
        let c: u8 = kani::any();
        kani::assume(c == b'b' || c == b'z');
        let ok = decrypt_flow(name_of(c));
        assert!(unsafe { LIB_CALLS.0 } == 0, "[C12,C05] decryption is never attempted for a name that has no private key in the keyring");
        kani::cover!(!ok && c == b'b');
        kani::cover!(!ok && c == b'z');
        crate::keyring::verif_keyring::env_guard();
    } }

    fn encrypt_flow(to: String, from: String) -> bool {
        let (infile, outfile, plen, pre) = setup_common();
        let pre_exists = unsafe { FS.exists };
        let r = encrypt(EncryptOptions { infile, to, from, outfile, keyring: if kani::any() { Some(String::from("k")) } else { None }, env_pass: kani::any() });
        let ok = r.is_ok();
        core::mem::forget(r);
        check_common(ok, plen, pre, pre_exists);
        unsafe {
            if LIB_CALLS.0 == 1 {
                assert!(UNLOCK_N.0 >= 1 && eq32(&LIB_RECIP_SK, &UNLOCK_SK), "[C05,C12] encryption signs with the private key unlocked from the sender's keyring entry");
                assert!(FRESH_OK, "[C07] the CLI leaves ephemeral key and payload key to the library's CSPRNG (None, None, None)");
            }
        }
        ok
    }
    cmd_stubs! {
    /// C12/C13/C07: `encrypt -f a -t <a|b>`.
    pub fn cmd_encrypt_flow() {
        let c: u8 = kani::any();
        kani::assume(c == b'a' || c == b'b');
        let ok = encrypt_flow(name_of(c), String::from("a"));
        kani::cover!(ok && c == b'b');
        kani::cover!(!ok && unsafe { LIB_CALLS.0 == 1 });
        kani::cover!(!ok && unsafe { LIB_CALLS.0 == 0 });
        crate::keyring::verif_keyring::env_guard();
    } }
    cmd_stubs! {
    /// C12/C13: `encrypt` with a sender that has no private key (b) or does not exist (z), or a recipient that does not exist.
    pub fn cmd_encrypt_flow_other() {
        let t: u8 = kani::any();
        let f: u8 = kani::any();
        kani::assume(t == b'a' || t == b'z');
        kani::assume(f == b'a' || f == b'b' || f == b'z');
        kani::assume(t == b'z' || f != b'a');
        let ok = encrypt_flow(name_of(t), name_of(f));
        kani::cover!(!ok && t == b'z');
        kani::cover!(!ok && f == b'b');
        assert!(unsafe { LIB_CALLS.0 } == 0, "[C12,C05] encryption is never attempted with an unknown recipient or a sender without private key");
        crate::keyring::verif_keyring::env_guard();
    } }

    cmd_stubs! {
    /// C12/C13/C07: `password encrypt`.
    pub fn cmd_pass_encrypt_flow() {
        let (infile, outfile, plen, pre) = setup_common();
        let pre_exists = unsafe { FS.exists };
        let r = pass_encrypt(PasswordOptions { infile, outfile, env_pass: true });
        let ok = r.is_ok();
        core::mem::forget(r);
        check_common(ok, plen, pre, pre_exists);
        unsafe {
            if LIB_CALLS.0 == 1 {
                assert!(RNG_N.0 == 1 && RNG_LEN_OK && eq32(&PE_SALT, &RNG_OUT[0]), "[C07] the salt is one fresh 32-byte CSPRNG draw, used for nothing else");
                assert!(PE_PW0 == b'p', "[C02,C12] the file is encrypted under the password the user gave");
            }
        }
        kani::cover!(ok);
        kani::cover!(!ok && unsafe { LIB_CALLS.0 == 0 });
        crate::keyring::verif_keyring::env_guard();
    } }

    cmd_stubs! {
    /// C12/C13: `password decrypt`.
    pub fn cmd_pass_decrypt_flow() {
        let (infile, outfile, plen, pre) = setup_common();
        let pre_exists = unsafe { FS.exists };
        let r = pass_decrypt(PasswordOptions { infile, outfile, env_pass: true });
        let ok = r.is_ok();
        core::mem::forget(r);
        check_common(ok, plen, pre, pre_exists);
        unsafe { if LIB_CALLS.0 == 1 { assert!(PE_PW0 == b'p', "[C02,C12] the file is decrypted under the password the user gave"); } }
        kani::cover!(ok);
        kani::cover!(!ok && unsafe { LIB_CALLS.0 == 1 && LIB_WRITES.0 == 2 });
        crate::keyring::verif_keyring::env_guard();
    } }

    /// wiring is concrete per harness (a solver-chosen wiring doubled the instance and ran out of memory at 36 GB)
    fn set_stdio(i: bool, o: bool) {
        unsafe { USE_STDIN = i; USE_STDOUT = o; TTY_IN = kani::any(); PRECHECKS_PASS = true; }
    }
    fn pass_decrypt_wired() -> bool {
        let (infile, outfile, plen, pre) = setup_common();
        let pre_exists = unsafe { FS.exists };
        let r = pass_decrypt(PasswordOptions { infile, outfile, env_pass: true });
        let ok = r.is_ok();
        core::mem::forget(r);
        check_common(ok, plen, pre, pre_exists);
        check_stdio(ok, plen, pre_exists);
        ok
    }
    fn pass_encrypt_wired() -> bool {
        let (infile, outfile, plen, pre) = setup_common();
        let pre_exists = unsafe { FS.exists };
        let r = pass_encrypt(PasswordOptions { infile, outfile, env_pass: true });
        let ok = r.is_ok();
        core::mem::forget(r);
        check_common(ok, plen, pre, pre_exists);
        check_stdio(ok, plen, pre_exists);
        ok
    }
    cmd_stubs! {
    /// C12 (wiring): `password decrypt` as a filter: stdin -> stdout.
    pub fn cmd_pass_decrypt_stdio() {
        set_stdio(true, true);
        let ok = pass_decrypt_wired();
        kani::cover!(ok && unsafe { LIB_WRITES.0 == 2 });
        kani::cover!(!ok && unsafe { TTY_OUT });
        kani::cover!(!ok && unsafe { TTY_IN });
        crate::keyring::verif_keyring::env_guard();
    } }
    cmd_stubs! {
    /// C12 (wiring): `password decrypt FILE` to stdout.
    pub fn cmd_pass_decrypt_to_stdout() {
        set_stdio(false, true);
        let ok = pass_decrypt_wired();
        kani::cover!(ok && unsafe { LIB_WRITES.0 == 2 });
        crate::keyring::verif_keyring::env_guard();
    } }
    cmd_stubs! {
    /// C12 (wiring): `password decrypt -o FILE` from stdin.
    pub fn cmd_pass_decrypt_from_stdin() {
        set_stdio(true, false);
        let ok = pass_decrypt_wired();
        kani::cover!(ok && unsafe { LIB_WRITES.0 == 2 });
        kani::cover!(!ok && unsafe { TTY_IN });
        crate::keyring::verif_keyring::env_guard();
    } }
    cmd_stubs! {
    /// C12 (wiring): `password encrypt` as a filter: stdin -> stdout.
    pub fn cmd_pass_encrypt_stdio() {
        set_stdio(true, true);
        let ok = pass_encrypt_wired();
        kani::cover!(ok && unsafe { LIB_WRITES.0 == 2 });
        kani::cover!(!ok && unsafe { TTY_IN });
        crate::keyring::verif_keyring::env_guard();
    } }
    cmd_stubs! {
    /// C12 (wiring): `password encrypt -o FILE` from stdin.
    pub fn cmd_pass_encrypt_from_stdin() {
        set_stdio(true, false);
        let ok = pass_encrypt_wired();
        kani::cover!(ok && unsafe { LIB_WRITES.0 == 2 });
        kani::cover!(!ok && unsafe { TTY_IN });
        crate::keyring::verif_keyring::env_guard();
    } }

    // ================================================================= open_keyring: -k versus KESTREL_KEYRING
    // (one static with a unique initialiser: a lone `static mut KR.env_reads: usize = 0` was the static that Kani resolved
    // liballoc's Cap::ZERO to in this harness - see env_guard)
    pub struct KrState { pub magic: u64, pub env: u8, pub env_reads: usize, pub file_kind: u8, pub file_reads: usize, pub path0: u8 }
    pub static mut KR: KrState = KrState { magic: 0x4b52_5f53_5441_5445, env: 0, env_reads: 0, file_kind: 0, file_reads: 0, path0: 0 };
    pub fn kr_env_model<K: AsRef<std::ffi::OsStr>>(_key: K) -> Result<String, std::env::VarError> {
        unsafe {
            KR.env_reads += 1;
            match KR.env {
                0 => Ok(String::from("e")),
                1 => Err(std::env::VarError::NotPresent),
                _ => Err(std::env::VarError::NotUnicode(std::ffi::OsString::from("x"))),
            }
        }
    }
    // KR.env: 0 = set to "e", 1 = not present, 2 = not unicode; KR.file_kind: 0 = a valid one-key keyring, 1 = a keyring with an
    // incomplete section, 2 = not a keyring, 3 = missing
    pub fn fs_read_model<P: AsRef<Path>>(p: P) -> std::io::Result<Vec<u8>> {
        let b = p.as_ref().as_os_str().as_encoded_bytes();
        unsafe {
            KR.file_reads += 1;
            KR.path0 = if b.len() == 1 { b[0] } else { 0 };
            match KR.file_kind {
                0 => Ok(b"[Key]\nName = a\nPublicKey = P\n".to_vec()),
                1 => Ok(b"[Key]\nName = a\n".to_vec()),
                2 => Ok(b"junk\n".to_vec()),
                _ => Err(std::io::Error::from(std::io::ErrorKind::NotFound)),
            }
        }
    }
    /// String::from_utf8 on ASCII bytes (std's validator takes a word-at-a-time path chosen by the buffer's alignment,
    /// which the model checker treats as unknown); a non-ASCII byte is outside the harness ([LIMIT]).
    pub fn from_utf8_ascii_model(v: Vec<u8>) -> Result<String, std::string::FromUtf8Error> {
        let mut i = 0;
        while i < v.len() { if v[i] >= 0x80 { unsafe { crate::keyring::verif_keyring::STR_LIMIT = true; } } i += 1; }
        Ok(unsafe { String::from_utf8_unchecked(v) })
    }
    /// C12 "-k or KESTREL_KEYRING": the keyring is read from the path given with -k, else from the path in the environment
    /// variable (never both, never anything else); a missing / non-unicode variable, a missing file and a malformed keyring are errors; the same file gives the same keyring either way.
    #[kani::proof]
    #[kani::stub(std::env::var, kr_env_model)]
    #[kani::stub(std::fs::read, fs_read_model)]
    #[kani::stub(std::string::String::from_utf8, from_utf8_ascii_model)]
    #[kani::stub(std::backtrace::Backtrace::capture, bt_cut)]
    #[kani::stub(core::fmt::write, fmtwrite_cut)]
    #[kani::stub(alloc::fmt::format, format_cut)]
    #[kani::stub(str::trim, crate::keyring::verif_keyring::trim_model)]
    #[kani::stub(std::string::String::retain, crate::keyring::verif_keyring::retain_model)]
    #[kani::stub(<core::str::Lines as core::iter::Iterator>::next, crate::keyring::verif_keyring::lines_next_model)]
    #[kani::stub(str::split_once, crate::keyring::verif_keyring::split_once_model)]
    #[kani::unwind(34)]
    pub fn cmd_open_keyring() {
        unsafe { ct_codecs::kani_model::M.att_len = 36; }
        let mut kind = 0u8;
        while kind < 4 {
            let mut via_env = 0u8;
            while via_env < 2 {
                let mut envk = 0u8;
                while envk < 3 {
                    if via_env == 1 || envk == 0 {
                        unsafe { KR.file_kind = kind; KR.env = envk; KR.env_reads = 0; KR.file_reads = 0; KR.path0 = 0; }
                        let r = open_keyring(if via_env == 1 { None } else { Some(String::from("k")) });
                        let ok = r.is_ok();
                        unsafe {
                            if via_env == 0 {
                                assert!(KR.env_reads == 0 && KR.file_reads == 1 && KR.path0 == b'k', "[C12] with -k the keyring is read from exactly that path; the environment is not consulted");
                                assert!(ok == (kind == 0), "[C12,C17] -k: Ok iff the file exists and parses as a keyring");
                            } else {
                                assert!(KR.env_reads == 1, "[C12] without -k the location comes from KESTREL_KEYRING");
                                if envk != 0 { assert!(!ok && KR.file_reads == 0, "[C12] an unset or non-unicode KESTREL_KEYRING is an error; no file is read"); }
                                else {
                                    assert!(KR.file_reads == 1 && KR.path0 == b'e', "[C12] the keyring is read from exactly the path in KESTREL_KEYRING");
                                    assert!(ok == (kind == 0), "[C12,C17] KESTREL_KEYRING: Ok iff the file exists and parses - the same outcome as with -k");
                                }
                            }
                            if let Ok(k) = &r {
                                let keys = crate::keyring::verif_keyring::keys_of(k);
                                assert!(keys.len() == 1 && keys[0].name == "a" && keys[0].public_key.as_str() == "P", "[C12,C17] the same file gives the same keyring whichever way it was named");
                            }
                        }
                        core::mem::forget(r);
                    }
                    envk += 1;
                }
                via_env += 1;
            }
            kind += 1;
        }
        assert!(!unsafe { crate::keyring::verif_keyring::STR_LIMIT }, "[LIMIT] E-STR models are exact for ASCII text only");
        crate::keyring::verif_keyring::env_guard();
    }

    // ================================================================= change-pass / extract-pub
    // a 112-character argument (the base64 length of 84 bytes) that is not one of the model's tokens
    pub const BLOB: &str = "BBBBBBBBBBBBBBBBBBBBBBBBBBBBBBBBBBBBBBBBBBBBBBBBBBBBBBBBBBBBBBBBBBBBBBBBBBBBBBBBBBBBBBBBBBBBBBBBBBBBBBBBBBBBBBBB";
    pub static mut NEWPASS_FAIL: bool = false;
    pub static mut NEWPASS_SAME: bool = false; // the new password equals the old one
    pub fn new_pass_model(_p: &str, _e: bool) -> Result<ZeroedString, anyhow::Error> {
        unsafe { if NEWPASS_FAIL { return Err(anyhow::Error::msg("no new password")); } }
        if unsafe { NEWPASS_SAME } { Ok(ZeroedString::new(String::from("p"))) } else { Ok(ZeroedString::new(String::from("q"))) }
    }
    macro_rules! key_cmd_stubs { ($f:item) => {
        #[kani::proof]
        #[kani::stub(passterm::isatty, isatty_model)]
        #[kani::stub(ask_pass, ask_pass_model)]
        #[kani::stub(confirm_new_pass, new_pass_model)]
        #[kani::stub(kestrel_crypto::secure_random, rng_model)]
        #[kani::stub(kestrel_crypto::x25519_derive_public, derive_model)]
        #[kani::stub(crate::keyring::Keyring::unlock_private_key, unlock_model)]
        #[kani::stub(crate::keyring::Keyring::lock_private_key, lock_model)]
        #[kani::stub(crate::keyring::Keyring::encode_public_key, encpk_model)]
        #[kani::stub(std::backtrace::Backtrace::capture, bt_cut)]
        #[kani::stub(core::fmt::write, fmtwrite_cut)]
        #[kani::stub(alloc::fmt::format, format_cut)]
        #[kani::stub(std::io::_print, print_cut)]
        #[kani::stub(std::io::_eprint, eprint_cut)]
        #[kani::unwind(8)]
        $f
    } }

    key_cmd_stubs! {
    /// C16/C07: change-pass unlocks with the OLD password, re-locks THAT key under the NEW password and a FRESH salt.
    pub fn cmd_change_pass() {
        unsafe {
            ASK_FAIL = kani::any(); NEWPASS_FAIL = kani::any(); NEWPASS_SAME = kani::any(); UNLOCK_FAIL = kani::any(); TTY_OUT = kani::any();
            ct_codecs::kani_model::M.att_len = 84; // the argument decodes to 84 bytes
            ct_codecs::kani_model::M.att_err = kani::any();
        }
        let r = change_pass(String::from(BLOB), true);
        let ok = r.is_ok();
        core::mem::forget(r);
        unsafe {
            let should = !ASK_FAIL && !NEWPASS_FAIL && !UNLOCK_FAIL && !ct_codecs::kani_model::M.att_err;
            assert!(ok == should, "[C12,C16] change-pass succeeds iff both passwords were obtained, the key string is well formed and the old password unlocks it");
            if ok {
                assert!(UNLOCK_N.0 == 1 && UNLOCK_BLOB0 == b'B' && UNLOCK_PW0 == b'p', "[C16,C07] the given locked key is unlocked with the OLD password");
                assert!(LOCK_N.0 == 1 && eq32(&LOCK_SK, &UNLOCK_SK), "[C16,C07] exactly the unlocked private key is re-locked, on every change - also when the new password equals the old one (the key keeps its identity, the salt does not)");
                assert!(LOCK_PWLEN.0 == 1 && LOCK_PW0 == (if NEWPASS_SAME { b'p' } else { b'q' }), "[C16] ... under the NEW password");
                assert!(RNG_N.0 == 1 && RNG_LEN_OK && eq32(&LOCK_SALT, &RNG_OUT[0]), "[C16,C07] ... and a fresh 32-byte CSPRNG salt (every change, whatever the passwords)");
            } else {
                assert!(LOCK_N.0 == 0, "[C12,C16] on failure nothing is re-locked");
            }
        }
        kani::cover!(ok && unsafe { NEWPASS_SAME });
        kani::cover!(!ok);
        crate::keyring::verif_keyring::env_guard();
    } }

    key_cmd_stubs! {
    /// C16: extract-pub prints the encoding of the X25519 public key of the unlocked private key.
    pub fn cmd_extract_pub() {
        unsafe {
            ASK_FAIL = kani::any(); UNLOCK_FAIL = kani::any();
            ct_codecs::kani_model::M.att_len = 84;
            ct_codecs::kani_model::M.att_err = kani::any();
        }
        let r = extract_pub(String::from(BLOB), true);
        let ok = r.is_ok();
        core::mem::forget(r);
        unsafe {
            let should = !ASK_FAIL && !UNLOCK_FAIL && !ct_codecs::kani_model::M.att_err;
            assert!(ok == should, "[C12,C16] extract-pub succeeds iff the password was obtained, the key string is well formed and unlocks");
            if ok {
                assert!(UNLOCK_N.0 == 1 && UNLOCK_BLOB0 == b'B' && UNLOCK_PW0 == b'p', "[C16] the given locked key is unlocked with the given password");
                assert!(DERIVE_N.0 == 1 && eq32(&DERIVE_IN, &UNLOCK_SK), "[C16] the public key is derived from exactly the unlocked private key");
                assert!(ENCPK_N.0 == 1 && eq32(&ENCPK_IN, &DERIVE_OUT), "[C16] what is encoded for printing is that public key - never the private key");
                assert!(LOCK_N.0 == 0 && RNG_N.0 == 0, "[C16] extraction changes nothing");
            }
        }
        kani::cover!(ok);
        kani::cover!(!ok);
        crate::keyring::verif_keyring::env_guard();
    } }

    // ================================================================= passwords from the environment
    pub static mut ENV_SET: bool = true;
    pub static mut ENV_READS_OLD: crate::Z8 = crate::Z8(0);
    pub static mut ENV_READS_NEW: crate::Z8 = crate::Z8(0);
    pub fn env_var_model<K: AsRef<std::ffi::OsStr>>(key: K) -> Result<String, std::env::VarError> {
        let k = key.as_ref().as_encoded_bytes();
        unsafe {
            // KESTREL_PASSWORD (16 bytes) vs KESTREL_NEW_PASSWORD (20 bytes)
            let new = k.len() == 20;
            if new { ENV_READS_NEW.0 += 1; } else { ENV_READS_OLD.0 += 1; }
            if !ENV_SET { return Err(std::env::VarError::NotPresent); }
            // values with a leading space and a trailing newline: they must reach the key derivation unchanged
            if new { Ok(String::from(" q\n")) } else { Ok(String::from(" p\n")) }
        }
    }
    /// C16/C02/C14: with --env-pass the password is exactly the value of KESTREL_PASSWORD (KESTREL_NEW_PASSWORD for the
    /// new password of change-pass), byte for byte - including leading/trailing whitespace - so that the password a key
    /// or file is locked under is the one that unlocks it; an unset variable is an error.
    #[kani::proof]
    #[kani::stub(std::env::var, env_var_model)]
    #[kani::stub(std::backtrace::Backtrace::capture, bt_cut)]
    #[kani::stub(core::fmt::write, fmtwrite_cut)]
    #[kani::stub(alloc::fmt::format, format_cut)]
    #[kani::unwind(8)]
    pub fn cmd_env_passwords() {
        unsafe { ENV_SET = kani::any(); }
        let which: u8 = kani::any();
        kani::assume(which <= 3);
        let r = match which {
            0 => ask_pass("Password: ", true),
            1 => confirm_password("New password: ", true),
            2 => confirm_new_pass("New password: ", true),
            _ => read_env_pass(),
        };
        unsafe {
            if !ENV_SET {
                assert!(r.is_err(), "[C12,C13] --env-pass with the variable unset is an error");
            } else {
                assert!(r.is_ok(), "[C12] --env-pass with the variable set yields the password");
                let p = r.as_ref().unwrap();
                let b = p.as_bytes();
                let want: &[u8; 3] = if which == 2 { b" q\n" } else { b" p\n" };
                assert!(b.len() == 3 && b[0] == want[0] && b[1] == want[1] && b[2] == want[2],
                        "[C16,C02,C14] the password taken from the environment is used byte for byte (leading/trailing whitespace and line endings included): the old one from KESTREL_PASSWORD, the new one of change-pass from KESTREL_NEW_PASSWORD");
                if which == 2 { assert!(ENV_READS_NEW.0 == 1 && ENV_READS_OLD.0 == 0, "[C16] the NEW password comes from KESTREL_NEW_PASSWORD"); }
                else { assert!(ENV_READS_OLD.0 == 1 && ENV_READS_NEW.0 == 0, "[C16,C02] the password comes from KESTREL_PASSWORD"); }
            }
        }
        kani::cover!(which == 2 && r.is_ok());
        kani::cover!(r.is_err());
        core::mem::forget(r);
        crate::keyring::verif_keyring::env_guard();
    }
}
