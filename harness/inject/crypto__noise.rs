// Injected (cfg(kani) only) at the end of src/crypto/src/noise.rs: child module of `noise`.
//
// H-NOISE: the REAL HandshakeState::{init_x, write_message, read_message} in lockstep with the
// Noise_X_25519_ChaChaPoly_SHA256 message pattern of the Noise specification (rev 34, sections 5 and 7.4):
//     <- s            (pre-message: responder static)
//     -> e, es, s, ss (+ payload)
// SHA-256, HKDF (two outputs), X25519 and the AEAD are UNINTERPRETED functions: phase 1 (initiator) records
// every call and hands out fresh unconstrained results; the harness asserts the recorded trace is exactly the one the
// specification prescribes. Phase 2 (responder) replays: its k-th call of each primitive must present the same
// arguments (X25519: the commuted pair) and receives the recorded result. If all assertions hold, writer and reader
// agree with the specification and with each other for EVERY interpretation of the primitives.

#[allow(dead_code, static_mut_refs, unused_imports, unused_variables, unused_mut)]
pub(crate) mod verif_noise {
    use super::*;
    use crate::errors::{ChaPolyDecryptError, DhError};
    use crate::vrep;

    pub static mut MODE: u8 = 0; // 0 = record (initiator), 1 = replay (responder), 2 = free (unconstrained results)
    pub static mut DIVERGED: bool = false; // a replayed call presented arguments different from the recorded ones

    // loop-free comparison of the first n bytes (n a multiple of 4, <= 128): the code under test iterates over a
    // heap-allocated token list, so the global unwind bound must stay small and harness code may not loop.
    fn eq16(a: &[u8], b: &[u8]) -> bool {
        u128::from_le_bytes(a[..16].try_into().unwrap()) == u128::from_le_bytes(b[..16].try_into().unwrap())
    }
    fn eq4(a: &[u8], b: &[u8]) -> bool {
        u32::from_le_bytes(a[..4].try_into().unwrap()) == u32::from_le_bytes(b[..4].try_into().unwrap())
    }
    fn eq(a: &[u8], b: &[u8], n: usize) -> bool {
        if a.len() < n || b.len() < n || n > 128 || n % 4 != 0 { return false; }
        let mut ok = true;
        let q = n / 16;
        vrep!(8, c, { if c < q && !eq16(&a[c * 16..], &b[c * 16..]) { ok = false; } });
        let t = (n % 16) / 4;
        vrep!(3, c, { if c < t && !eq4(&a[q * 16 + c * 4..], &b[q * 16 + c * 4..]) { ok = false; } });
        ok
    }
    // ---- SHA-256 -----------------------------------------------------------------------------
    pub const NSHA: usize = 5;
    pub static mut SHA_IN: [[u8; 80]; NSHA] = [[0; 80]; NSHA];
    pub static mut SHA_LEN: [usize; NSHA] = [0; NSHA];
    pub static mut SHA_OUT: [[u8; 32]; NSHA] = [[0; 32]; NSHA];
    pub static mut SHA_REC: usize = 0;
    pub static mut SHA_REP: usize = 0;
    pub fn sha_model(data: &[u8]) -> Vec<u8> {
        unsafe {
            if MODE == 0 {
                let k = SHA_REC;
                assert!(k < NSHA && data.len() <= 80, "[C06,C05] Noise X makes exactly five hash calls per side (inputs <= 80 bytes)");
                SHA_IN[k][..data.len()].copy_from_slice(data);
                SHA_LEN[k] = data.len();
                let o: [u8; 32] = kani::any();
                SHA_OUT[k] = o;
                SHA_REC += 1;
                o.to_vec()
            } else if MODE == 1 {
                let k = SHA_REP;
                SHA_REP += 1;
                if k < SHA_REC && data.len() == SHA_LEN[k] && eq(data, &SHA_IN[k], SHA_LEN[k]) {
                    SHA_OUT[k].to_vec()
                } else {
                    DIVERGED = true;
                    let o: [u8; 32] = kani::any();
                    o.to_vec()
                }
            } else {
                let o: [u8; 32] = kani::any();
                o.to_vec()
            }
        }
    }

    // ---- Noise HKDF (two outputs) ------------------------------------------------------------
    pub const NHK: usize = 3;
    pub static mut HK_CK: [[u8; 32]; NHK] = [[0; 32]; NHK];
    pub static mut HK_IKM: [[u8; 32]; NHK] = [[0; 32]; NHK];
    pub static mut HK_IKMLEN: [usize; NHK] = [0; NHK];
    pub static mut HK_O1: [[u8; 32]; NHK] = [[0; 32]; NHK];
    pub static mut HK_O2: [[u8; 32]; NHK] = [[0; 32]; NHK];
    pub static mut HK_REC: usize = 0;
    pub static mut HK_REP: usize = 0;
    pub fn hkdf_model(ck: &[u8], ikm: &[u8]) -> (Vec<u8>, Vec<u8>) {
        unsafe {
            if MODE == 0 {
                let k = HK_REC;
                assert!(k < NHK && ck.len() == 32 && ikm.len() <= 32, "[C06,C05] Noise X makes exactly three HKDF calls per side (two MixKey, one Split)");
                HK_CK[k].copy_from_slice(ck);
                HK_IKM[k][..ikm.len()].copy_from_slice(ikm);
                HK_IKMLEN[k] = ikm.len();
                let (a, b): ([u8; 32], [u8; 32]) = (kani::any(), kani::any());
                HK_O1[k] = a;
                HK_O2[k] = b;
                HK_REC += 1;
                (a.to_vec(), b.to_vec())
            } else if MODE == 1 {
                let k = HK_REP;
                HK_REP += 1;
                if k < HK_REC && ck.len() == 32 && eq(ck, &HK_CK[k], 32) && ikm.len() == HK_IKMLEN[k] && eq(ikm, &HK_IKM[k], HK_IKMLEN[k]) {
                    (HK_O1[k].to_vec(), HK_O2[k].to_vec())
                } else {
                    DIVERGED = true;
                    let (a, b): ([u8; 32], [u8; 32]) = (kani::any(), kani::any());
                    (a.to_vec(), b.to_vec())
                }
            } else {
                let (a, b): ([u8; 32], [u8; 32]) = (kani::any(), kani::any());
                (a.to_vec(), b.to_vec())
            }
        }
    }

    // ---- X25519 ------------------------------------------------------------------------------
    pub const NDH: usize = 2;
    pub static mut DH_K: [[u8; 32]; NDH] = [[0; 32]; NDH];
    pub static mut DH_U: [[u8; 32]; NDH] = [[0; 32]; NDH];
    pub static mut DH_OUT: [[u8; 32]; NDH] = [[0; 32]; NDH];
    pub static mut DH_REC: usize = 0;
    pub static mut DH_REP: usize = 0;
    pub static mut DH_FAIL_AT: usize = usize::MAX; // record mode: this call reports the all-zero result
    // replay mode: the commuted arguments the responder must present (set by the harness)
    pub static mut DH_REP_K: [[u8; 32]; NDH] = [[0; 32]; NDH];
    pub static mut DH_REP_U: [[u8; 32]; NDH] = [[0; 32]; NDH];
    pub fn dh_model(k: &[u8], u: &[u8]) -> Result<Vec<u8>, DhError> {
        unsafe {
            assert!(k.len() == 32 && u.len() == 32, "[C19] X25519 inputs are 32 bytes");
            if MODE == 0 {
                let i = DH_REC;
                assert!(i < NDH, "[C06,C05] Noise X makes exactly two DH computations per side (es, ss)");
                DH_K[i].copy_from_slice(k);
                DH_U[i].copy_from_slice(u);
                DH_REC += 1;
                if i == DH_FAIL_AT { return Err(DhError); }
                let o: [u8; 32] = kani::any();
                DH_OUT[i] = o;
                Ok(o.to_vec())
            } else if MODE == 1 {
                let i = DH_REP;
                DH_REP += 1;
                // X25519(a, pub(b)) = X25519(b, pub(a)): the responder presents the commuted pair
                if i < DH_REC && eq(k, &DH_REP_K[i], 32) && eq(u, &DH_REP_U[i], 32) {
                    Ok(DH_OUT[i].to_vec())
                } else {
                    DIVERGED = true;
                    let o: [u8; 32] = kani::any();
                    Ok(o.to_vec())
                }
            } else {
                if kani::any() { return Err(DhError); }
                let o: [u8; 32] = kani::any();
                Ok(o.to_vec())
            }
        }
    }

    // ---- AEAD (Noise nonce form) -------------------------------------------------------------
    pub const NAE: usize = 2;
    pub static mut AE_KEY: [[u8; 32]; NAE] = [[0; 32]; NAE];
    pub static mut AE_NONCE: [u64; NAE] = [0; NAE];
    pub static mut AE_AD: [[u8; 32]; NAE] = [[0; 32]; NAE];
    pub static mut AE_PT: [[u8; 32]; NAE] = [[0; 32]; NAE];
    pub static mut AE_CT: [[u8; 48]; NAE] = [[0; 48]; NAE];
    pub static mut AE_REC: usize = 0;
    pub static mut AE_REP: usize = 0;
    pub fn seal_model(key: &[u8], nonce: u64, ad: &[u8], pt: &[u8]) -> Vec<u8> {
        unsafe {
            let i = AE_REC;
            assert!(i < NAE && key.len() == 32 && ad.len() == 32 && pt.len() == 32, "[C06,C05] Noise X seals exactly two 32-byte values (s, payload) with AD = h");
            AE_KEY[i].copy_from_slice(key);
            AE_NONCE[i] = nonce;
            AE_AD[i].copy_from_slice(ad);
            AE_PT[i].copy_from_slice(pt);
            let c: [u8; 48] = kani::any();
            AE_CT[i] = c;
            AE_REC += 1;
            c.to_vec()
        }
    }
    pub fn open_model(key: &[u8], nonce: u64, ad: &[u8], ct: &[u8]) -> Result<Vec<u8>, ChaPolyDecryptError> {
        unsafe {
            if ct.len() < 16 { return Err(ChaPolyDecryptError); }
            if MODE == 1 {
                let i = AE_REP;
                AE_REP += 1;
                // ideal AEAD: opens iff (key, nonce, ad, ct) is exactly what was sealed
                if i < AE_REC && key.len() == 32 && eq(key, &AE_KEY[i], 32) && nonce == AE_NONCE[i] && ad.len() == 32 && eq(ad, &AE_AD[i], 32)
                    && ct.len() == 48 && eq(ct, &AE_CT[i], 48) {
                    Ok(AE_PT[i].to_vec())
                } else {
                    Err(ChaPolyDecryptError)
                }
            } else {
                // free mode: any verdict; on success any plaintext of the right length (<= 64 modelled)
                if kani::any() { return Err(ChaPolyDecryptError); }
                let n = ct.len() - 16;
                if n == 32 { let o: [u8; 32] = kani::any(); return Ok(o.to_vec()); }
                if n == 0 { let mut v = vec![0u8; 1]; v.truncate(0); return Ok(v); }
                let o: [u8; 64] = kani::any();
                let m = if n > 64 { 64 } else { n };
                Ok(o[..m].to_vec())
            }
        }
    }

    fn h0() -> [u8; 32] {
        let mut h = [0u8; 32];
        let name = b"Noise_X_25519_ChaChaPoly_SHA256";
        h[..31].copy_from_slice(name);
        h
    }
    fn cat_eq(k: usize, a: &[u8], b: &[u8]) -> bool {
        // SHA call k was made on a || b
        unsafe { SHA_LEN[k] == a.len() + b.len() && eq(&SHA_IN[k], a, a.len()) && eq(&SHA_IN[k][a.len()..], b, b.len()) }
    }

    /// C06(B) / C05(1): the writer's trace and message are exactly what the Noise X pattern prescribes.
    #[kani::proof]
    #[kani::stub(crate::sha256, sha_model)]
    #[kani::stub(crate::hkdf_noise, hkdf_model)]
    #[kani::stub(crate::x25519, dh_model)]
    #[kani::stub(crate::chapoly_encrypt_noise, seal_model)]
    #[kani::unwind(6)]
    pub fn noise_write_lockstep() {
        let prologue: [u8; 4] = kani::any();
        let (s_priv, s_pub, e_priv, e_pub, rs, payload): ([u8; 32], [u8; 32], [u8; 32], [u8; 32], [u8; 32], [u8; 32]) =
            (kani::any(), kani::any(), kani::any(), kani::any(), kani::any(), kani::any());
        unsafe { MODE = 0; }
        let mut hs = HandshakeState::init_x(
            true, &prologue,
            PrivateKey::try_from(&s_priv[..]).unwrap(), PublicKey::try_from(&s_pub[..]).unwrap(),
            Some(PrivateKey::try_from(&e_priv[..]).unwrap()), Some(PublicKey::try_from(&e_pub[..]).unwrap()),
            Some(PublicKey::try_from(&rs[..]).unwrap()));
        let w = hs.write_message(&payload);
        assert!(w.is_ok(), "[C01,C05] with both DH results non-zero the handshake message is produced");
        let w = w.unwrap();
        unsafe {
            assert!(SHA_REC == 5 && HK_REC == 3 && DH_REC == 2 && AE_REC == 2, "[C06,C05] Noise X: five hashes, two MixKey + Split, two DH, two AEAD");
            let z = h0();
            assert!(cat_eq(0, &z, &prologue), "[C06,C05] h = SHA256(h0 || prologue), h0 = protocol name zero-padded to 32 bytes");
            assert!(cat_eq(1, &SHA_OUT[0], &rs), "[C06,C05] pre-message <- s: initiator mixes the RECIPIENT's static public key");
            assert!(eq(&w.message, &e_pub, 32), "[C06,C08] message begins with the ephemeral public key in clear");
            assert!(cat_eq(2, &SHA_OUT[1], &e_pub), "[C06,C05] token e: MixHash(e.public)");
            assert!(eq(&DH_K[0], &e_priv, 32) && eq(&DH_U[0], &rs, 32), "[C06,C05] token es: DH(ephemeral private, recipient static public)");
            assert!(eq(&HK_CK[0], &z, 32) && HK_IKMLEN[0] == 32 && eq(&HK_IKM[0], &DH_OUT[0], 32), "[C06,C05] MixKey(es): HKDF(ck = h0, DH result)");
            assert!(eq(&AE_KEY[0], &HK_O2[0], 32) && AE_NONCE[0] == 0 && eq(&AE_AD[0], &SHA_OUT[2], 32) && eq(&AE_PT[0], &s_pub, 32), "[C06,C05] token s: EncryptAndHash(sender static public) under the es key, nonce 0, AD = h");
            assert!(eq(&w.message[32..], &AE_CT[0], 48), "[C06,C08] encrypted static key follows e");
            assert!(cat_eq(3, &SHA_OUT[2], &AE_CT[0]), "[C06,C05] MixHash(encrypted s)");
            assert!(eq(&DH_K[1], &s_priv, 32) && eq(&DH_U[1], &rs, 32), "[C06,C05] token ss: DH(sender static private, recipient static public)");
            assert!(eq(&HK_CK[1], &HK_O1[0], 32) && HK_IKMLEN[1] == 32 && eq(&HK_IKM[1], &DH_OUT[1], 32), "[C06,C05] MixKey(ss): HKDF(ck from es, DH result)");
            assert!(eq(&AE_KEY[1], &HK_O2[1], 32) && AE_NONCE[1] == 0 && eq(&AE_AD[1], &SHA_OUT[3], 32) && eq(&AE_PT[1], &payload, 32), "[C06,C05] payload: EncryptAndHash under the ss key, nonce reset to 0, AD = h");
            assert!(w.message.len() == 128 && eq(&w.message[80..], &AE_CT[1], 48), "[C06,C08] message = e || enc(s) || enc(payload), 128 bytes");
            assert!(cat_eq(4, &SHA_OUT[3], &AE_CT[1]), "[C06,C05] MixHash(encrypted payload)");
            assert!(eq(&w.handshake_hash, &SHA_OUT[4], 32), "[C06,C01] handshake hash = final h");
            assert!(eq(&HK_CK[2], &HK_O1[1], 32) && HK_IKMLEN[2] == 0, "[C06] Split(): HKDF(ck, empty)");
        }
        assert!(hs.get_pubkey().is_none(), "[C05] the initiator side never reports a sender key");
        core::mem::forget(hs); core::mem::forget(w);
    }

    /// C01(c) / C05(1) / C06(B): the reader, given a message built exactly as the Noise X pattern prescribes (the trace
    /// noise_write_lockstep shows the writer produces), recomputes the same hashes/keys, presents the commuted DH pairs,
    /// and returns (payload, sender static key, same handshake hash). The trace tables are filled by the harness
    /// from the specification, with fresh unconstrained values for every primitive result.
    #[kani::proof]
    #[kani::stub(crate::sha256, sha_model)]
    #[kani::stub(crate::hkdf_noise, hkdf_model)]
    #[kani::stub(crate::x25519, dh_model)]
    #[kani::stub(crate::chapoly_decrypt_noise, open_model)]
    #[kani::unwind(6)]
    pub fn noise_read_lockstep() {
        let prologue: [u8; 4] = kani::any();
        let (s_pub, e_pub, r_priv, rs, payload): ([u8; 32], [u8; 32], [u8; 32], [u8; 32], [u8; 32]) =
            (kani::any(), kani::any(), kani::any(), kani::any(), kani::any());
        let z = h0();
        unsafe {
            // the specification's trace for an initiator with static public key s_pub, ephemeral e_pub, addressing rs
            let h: [[u8; 32]; 5] = kani::any();
            let (dh0, dh1, ck1, k1, ck2, k2, sp1, sp2): ([u8; 32], [u8; 32], [u8; 32], [u8; 32], [u8; 32], [u8; 32], [u8; 32], [u8; 32]) =
                (kani::any(), kani::any(), kani::any(), kani::any(), kani::any(), kani::any(), kani::any(), kani::any());
            let (c1, c2): ([u8; 48], [u8; 48]) = (kani::any(), kani::any());
            SHA_OUT = h;
            SHA_IN[0][..32].copy_from_slice(&z); SHA_IN[0][32..36].copy_from_slice(&prologue); SHA_LEN[0] = 36;
            SHA_IN[1][..32].copy_from_slice(&h[0]); SHA_IN[1][32..64].copy_from_slice(&rs); SHA_LEN[1] = 64;
            SHA_IN[2][..32].copy_from_slice(&h[1]); SHA_IN[2][32..64].copy_from_slice(&e_pub); SHA_LEN[2] = 64;
            SHA_IN[3][..32].copy_from_slice(&h[2]); SHA_IN[3][32..80].copy_from_slice(&c1); SHA_LEN[3] = 80;
            SHA_IN[4][..32].copy_from_slice(&h[3]); SHA_IN[4][32..80].copy_from_slice(&c2); SHA_LEN[4] = 80;
            SHA_REC = 5;
            DH_OUT[0] = dh0; DH_OUT[1] = dh1; DH_REC = 2;
            DH_REP_K[0] = r_priv; DH_REP_U[0] = e_pub;   // es = DH(recipient private, e)      = DH(e private, rs)
            DH_REP_K[1] = r_priv; DH_REP_U[1] = s_pub;   // ss = DH(recipient private, s pub)  = DH(s private, rs)
            HK_CK[0] = z; HK_IKM[0] = dh0; HK_IKMLEN[0] = 32; HK_O1[0] = ck1; HK_O2[0] = k1;
            HK_CK[1] = ck1; HK_IKM[1] = dh1; HK_IKMLEN[1] = 32; HK_O1[1] = ck2; HK_O2[1] = k2;
            HK_CK[2] = ck2; HK_IKMLEN[2] = 0; HK_O1[2] = sp1; HK_O2[2] = sp2;
            HK_REC = 3;
            AE_KEY[0] = k1; AE_NONCE[0] = 0; AE_AD[0] = h[2]; AE_PT[0] = s_pub; AE_CT[0] = c1;
            AE_KEY[1] = k2; AE_NONCE[1] = 0; AE_AD[1] = h[3]; AE_PT[1] = payload; AE_CT[1] = c2;
            AE_REC = 2;
            MODE = 1;
            let mut msg = [0u8; 128];
            msg[..32].copy_from_slice(&e_pub); msg[32..80].copy_from_slice(&c1); msg[80..].copy_from_slice(&c2);
            let mut hr = HandshakeState::init_x(
                false, &prologue,
                PrivateKey::try_from(&r_priv[..]).unwrap(), PublicKey::try_from(&rs[..]).unwrap(), None, None, None);
            let rd = hr.read_message(&msg);
            assert!(!DIVERGED, "[C06,C05,C01] the responder computes exactly the initiator's hashes and keys and the commuted DH pairs (es with its own static key and e; ss with its own static key and the decrypted sender key)");
            assert!(SHA_REP == 5 && HK_REP == 3 && DH_REP == 2 && AE_REP == 2, "[C06,C05] responder: five hashes, three HKDF, two DH, two AEAD");
            assert!(rd.is_ok(), "[C01,C06] the responder accepts a message built per the specification for its key");
            let rd = rd.unwrap();
            assert!(rd.message.len() == 32 && eq(&rd.message, &payload, 32), "[C01] the payload key comes back unchanged");
            let pk = hr.get_pubkey();
            assert!(pk.is_some() && eq(pk.as_ref().unwrap().as_bytes(), &s_pub, 32), "[C01,C05] the responder reports exactly the sender's static public key");
            assert!(eq(&rd.handshake_hash, &h[4], 32), "[C01,C06] the responder derives the initiator's handshake hash");
            core::mem::forget(hr); core::mem::forget(rd); core::mem::forget(pk);
        }
    }

    /// C05(3): a refused DH (all-zero shared secret) at es or ss aborts write_message with DhError.
    #[kani::proof]
    #[kani::stub(crate::sha256, sha_model)]
    #[kani::stub(crate::hkdf_noise, hkdf_model)]
    #[kani::stub(crate::x25519, dh_model)]
    #[kani::stub(crate::chapoly_encrypt_noise, seal_model)]
    #[kani::unwind(6)]
    pub fn noise_dh_refusal() {
        let (s_priv, s_pub, e_priv, e_pub, rs, payload): ([u8; 32], [u8; 32], [u8; 32], [u8; 32], [u8; 32], [u8; 32]) =
            (kani::any(), kani::any(), kani::any(), kani::any(), kani::any(), kani::any());
        let at: usize = kani::any();
        kani::assume(at <= 1);
        unsafe { MODE = 0; DH_FAIL_AT = at; }
        let mut hs = HandshakeState::init_x(
            true, &[0x65, 0x67, 0x6b, 0x10],
            PrivateKey::try_from(&s_priv[..]).unwrap(), PublicKey::try_from(&s_pub[..]).unwrap(),
            Some(PrivateKey::try_from(&e_priv[..]).unwrap()), Some(PublicKey::try_from(&e_pub[..]).unwrap()),
            Some(PublicKey::try_from(&rs[..]).unwrap()));
        let w = hs.write_message(&payload);
        assert!(matches!(w, Err(NoiseError::DhError)), "[C05] an all-zero DH result (low-order recipient or ephemeral key) aborts the handshake");
        unsafe {
            assert!(AE_REC <= at, "[C05] nothing is sealed under a key derived from a refused DH");
        }
        kani::cover!(at == 0);
        kani::cover!(at == 1);
        core::mem::forget(hs); core::mem::forget(w);
    }

    /// C09: noise_decrypt on a handshake message of ANY length 0..=140 and any content, primitives unconstrained:
    /// an error or a result, never a panic.
    #[kani::proof]
    #[kani::stub(crate::sha256, sha_model)]
    #[kani::stub(crate::hkdf_noise, hkdf_model)]
    #[kani::stub(crate::x25519, dh_model)]
    #[kani::stub(crate::chapoly_decrypt_noise, open_model)]
    #[kani::unwind(6)]
    pub fn noise_decrypt_any_len() {
        unsafe { MODE = 2; }
        let msg: [u8; 140] = kani::any();
        let len: usize = kani::any();
        kani::assume(len <= 140);
        let (r_priv, r_pub): ([u8; 32], [u8; 32]) = (kani::any(), kani::any());
        let sk = PrivateKey::try_from(&r_priv[..]).unwrap();
        let pk = PublicKey::try_from(&r_pub[..]).unwrap();
        let r = crate::noise_decrypt(&sk, &pk, &[0x65, 0x67, 0x6b, 0x10], &msg[..len]);
        if len < 96 { assert!(r.is_err(), "[C09] a handshake message shorter than 96 bytes is rejected with an error"); }
        kani::cover!(len == 0);
        kani::cover!(len == 63 && r.is_err());
        kani::cover!(len == 79);
        kani::cover!(len == 95);
        kani::cover!(len == 128 && r.is_ok());
        kani::cover!(len == 140 && r.is_err());
        core::mem::forget(r); core::mem::forget(sk); core::mem::forget(pk);
    }
}
