// Injected (cfg(kani) only) at the end of src/crypto/src/noise.rs: child module of `noise`.
//
// H-NOISE: the REAL HandshakeState::{init_x, write_message, read_message} in lockstep with the
// Noise_X_25519_ChaChaPoly_SHA256 message pattern of the Noise specification (rev 34, sections 5 and 7.4):
//     <- s            (pre-message: responder static)
//     -> e, es, s, ss (+ payload)
// SHA-256, HKDF (two outputs), X25519 and the AEAD are UNINTERPRETED functions: phase 1 (initiator) records
// every call and hands out fresh unconstrained results; the harness asserts the recorded trace is exactly the one the
// specification prescribes. Phase 2 (responder) replays: its k-th call of each primitive must present the same
// arguments (X25519: the commuted pair) and receives the recorded result. If all assertions hold, writer and reader
// agree with the specification and with each other for EVERY interpretation of the primitives.

#[allow(dead_code, static_mut_refs, unused_imports, unused_variables, unused_mut)]
pub(crate) mod verif_noise {
    use super::*;
    use crate::errors::{ChaPolyDecryptError, DhError};
    use crate::vrep;

    pub static mut MODE: u8 = 0; // 0 = record (initiator), 1 = replay (responder), 2 = free (unconstrained results)
    pub static mut DIVERGED: bool = false; // a replayed call presented arguments different from the recorded ones

    // loop-free comparison of the first n bytes (n a multiple of 4, <= 128): the code under test iterates over a
    // heap-allocated token list, so the global unwind bound must stay small and harness code may not loop.
    fn eq16(a: &[u8], b: &[u8]) -> bool {
        u128::from_le_bytes(a[..16].try_into().unwrap()) == u128::from_le_bytes(b[..16].try_into().unwrap())
    }
    fn eq4(a: &[u8], b: &[u8]) -> bool {
        u32::from_le_bytes(a[..4].try_into().unwrap()) == u32::from_le_bytes(b[..4].try_into().unwrap())
    }
    fn eq(a: &[u8], b: &[u8], n: usize) -> bool {
        if a.len() < n || b.len() < n || n > 128 || n % 4 != 0 { return false; }
        let mut ok = true;
        let q = n / 16;
        vrep!(8, c, { if c < q && !eq16(&a[c * 16..], &b[c * 16..]) { ok = false; } });
        let t = (n % 16) / 4;
        vrep!(3, c, { if c < t && !eq4(&a[q * 16 + c * 4..], &b[q * 16 + c * 4..]) { ok = false; } });
        ok
    }
    // ---- SHA-256 -----------------------------------------------------------------------------
    // one table per call index, with the input length the X pattern gives that call (36, 64, 64, 80, 80): every copy
    // has a concrete length and a concrete destination (symbolic-length copies into an indexed table exhaust memory)
    pub const NSHA: usize = 5;
    pub static mut SHA_IN0: [u8; 36] = [0; 36];
    pub static mut SHA_IN1: [u8; 64] = [0; 64];
    pub static mut SHA_IN2: [u8; 64] = [0; 64];
    pub static mut SHA_IN3: [u8; 80] = [0; 80];
    pub static mut SHA_IN4: [u8; 80] = [0; 80];
    pub static mut SHA_OUT: [[u8; 32]; NSHA] = [[0; 32]; NSHA];
    pub static mut SHA_REC: usize = 0;
    pub static mut SHA_REP: usize = 0;
    pub static mut SHA_SHAPE_OK: bool = true; // every recorded call had the input length the pattern prescribes
    pub fn sha_model(data: &[u8]) -> Vec<u8> {
        unsafe {
            if MODE == 0 {
                let k = SHA_REC;
                assert!(k < NSHA, "[C06,C05] Noise X makes exactly five hash calls per side");
                let o: [u8; 32] = kani::any();
                match k {
                    0 => { if data.len() == 36 { SHA_IN0.copy_from_slice(data); } else { SHA_SHAPE_OK = false; } SHA_OUT[0] = o; }
                    1 => { if data.len() == 64 { SHA_IN1.copy_from_slice(data); } else { SHA_SHAPE_OK = false; } SHA_OUT[1] = o; }
                    2 => { if data.len() == 64 { SHA_IN2.copy_from_slice(data); } else { SHA_SHAPE_OK = false; } SHA_OUT[2] = o; }
                    3 => { if data.len() == 80 { SHA_IN3.copy_from_slice(data); } else { SHA_SHAPE_OK = false; } SHA_OUT[3] = o; }
                    _ => { if data.len() == 80 { SHA_IN4.copy_from_slice(data); } else { SHA_SHAPE_OK = false; } SHA_OUT[4] = o; }
                }
                SHA_REC += 1;
                o.to_vec()
            } else if MODE == 1 {
                let k = SHA_REP;
                SHA_REP += 1;
                let same = match k {
                    0 => data.len() == 36 && eq(data, &SHA_IN0, 36),
                    1 => data.len() == 64 && eq(data, &SHA_IN1, 64),
                    2 => data.len() == 64 && eq(data, &SHA_IN2, 64),
                    3 => data.len() == 80 && eq(data, &SHA_IN3, 80),
                    4 => data.len() == 80 && eq(data, &SHA_IN4, 80),
                    _ => false,
                };
                if k < SHA_REC && same {
                    match k { 0 => SHA_OUT[0].to_vec(), 1 => SHA_OUT[1].to_vec(), 2 => SHA_OUT[2].to_vec(), 3 => SHA_OUT[3].to_vec(), _ => SHA_OUT[4].to_vec() }
                } else {
                    DIVERGED = true;
                    let o: [u8; 32] = kani::any();
                    o.to_vec()
                }
            } else {
                let o: [u8; 32] = kani::any();
                o.to_vec()
            }
        }
    }

    // ---- Noise HKDF (two outputs) ------------------------------------------------------------
    pub const NHK: usize = 3;
    pub static mut HK_CK: [[u8; 32]; NHK] = [[0; 32]; NHK];
    pub static mut HK_IKM: [[u8; 32]; NHK] = [[0; 32]; NHK];
    pub static mut HK_IKMLEN: [usize; NHK] = [0; NHK];
    pub static mut HK_O1: [[u8; 32]; NHK] = [[0; 32]; NHK];
    pub static mut HK_O2: [[u8; 32]; NHK] = [[0; 32]; NHK];
    pub static mut HK_REC: usize = 0;
    pub static mut HK_REP: usize = 0;
    pub fn hkdf_model(ck: &[u8], ikm: &[u8]) -> (Vec<u8>, Vec<u8>) {
        unsafe {
            if MODE == 0 {
                let k = HK_REC;
                assert!(k < NHK && ck.len() == 32 && (ikm.len() == 32 || ikm.len() == 0), "[C06,C05] Noise X makes exactly three HKDF calls per side (two MixKey on 32-byte DH results, one Split on empty input)");
                let (a, b): ([u8; 32], [u8; 32]) = (kani::any(), kani::any());
                match k {
                    0 => { HK_CK[0].copy_from_slice(ck); if ikm.len() == 32 { HK_IKM[0].copy_from_slice(ikm); } HK_IKMLEN[0] = ikm.len(); HK_O1[0] = a; HK_O2[0] = b; }
                    1 => { HK_CK[1].copy_from_slice(ck); if ikm.len() == 32 { HK_IKM[1].copy_from_slice(ikm); } HK_IKMLEN[1] = ikm.len(); HK_O1[1] = a; HK_O2[1] = b; }
                    _ => { HK_CK[2].copy_from_slice(ck); if ikm.len() == 32 { HK_IKM[2].copy_from_slice(ikm); } HK_IKMLEN[2] = ikm.len(); HK_O1[2] = a; HK_O2[2] = b; }
                }
                HK_REC += 1;
                (a.to_vec(), b.to_vec())
            } else if MODE == 1 {
                let k = HK_REP;
                HK_REP += 1;
                let same = match k {
                    0 => ck.len() == 32 && eq(ck, &HK_CK[0], 32) && ikm.len() == HK_IKMLEN[0] && (ikm.len() == 0 || eq(ikm, &HK_IKM[0], 32)),
                    1 => ck.len() == 32 && eq(ck, &HK_CK[1], 32) && ikm.len() == HK_IKMLEN[1] && (ikm.len() == 0 || eq(ikm, &HK_IKM[1], 32)),
                    2 => ck.len() == 32 && eq(ck, &HK_CK[2], 32) && ikm.len() == HK_IKMLEN[2] && (ikm.len() == 0 || eq(ikm, &HK_IKM[2], 32)),
                    _ => false,
                };
                if k < HK_REC && same {
                    match k { 0 => (HK_O1[0].to_vec(), HK_O2[0].to_vec()), 1 => (HK_O1[1].to_vec(), HK_O2[1].to_vec()), _ => (HK_O1[2].to_vec(), HK_O2[2].to_vec()) }
                } else {
                    DIVERGED = true;
                    let (a, b): ([u8; 32], [u8; 32]) = (kani::any(), kani::any());
                    (a.to_vec(), b.to_vec())
                }
            } else {
                let (a, b): ([u8; 32], [u8; 32]) = (kani::any(), kani::any());
                (a.to_vec(), b.to_vec())
            }
        }
    }

    // ---- X25519 ------------------------------------------------------------------------------
    pub const NDH: usize = 2;
    pub static mut DH_K: [[u8; 32]; NDH] = [[0; 32]; NDH];
    pub static mut DH_U: [[u8; 32]; NDH] = [[0; 32]; NDH];
    pub static mut DH_OUT: [[u8; 32]; NDH] = [[0; 32]; NDH];
    pub static mut DH_REC: usize = 0;
    pub static mut DH_REP: usize = 0;
    pub static mut DH_FAIL_AT: usize = usize::MAX; // record mode: this call reports the all-zero result
    pub static mut DH_REFUSED: bool = false; // free mode: some DH reported the all-zero result
    // replay mode: the commuted arguments the responder must present (set by the harness)
    pub static mut DH_REP_K: [[u8; 32]; NDH] = [[0; 32]; NDH];
    pub static mut DH_REP_U: [[u8; 32]; NDH] = [[0; 32]; NDH];
    pub fn dh_model(k: &[u8], u: &[u8]) -> Result<Vec<u8>, DhError> {
        unsafe {
            assert!(k.len() == 32 && u.len() == 32, "[C19] X25519 inputs are 32 bytes");
            if MODE == 0 {
                let i = DH_REC;
                assert!(i < NDH, "[C06,C05] Noise X makes exactly two DH computations per side (es, ss)");
                DH_K[i].copy_from_slice(k);
                DH_U[i].copy_from_slice(u);
                DH_REC += 1;
                if i == DH_FAIL_AT { return Err(DhError); }
                let o: [u8; 32] = kani::any();
                DH_OUT[i] = o;
                Ok(o.to_vec())
            } else if MODE == 1 {
                let i = DH_REP;
                DH_REP += 1;
                // X25519(a, pub(b)) = X25519(b, pub(a)): the responder presents the commuted pair
                if i < DH_REC && eq(k, &DH_REP_K[i], 32) && eq(u, &DH_REP_U[i], 32) {
                    Ok(DH_OUT[i].to_vec())
                } else {
                    DIVERGED = true;
                    let o: [u8; 32] = kani::any();
                    Ok(o.to_vec())
                }
            } else {
                if kani::any() { DH_REFUSED = true; return Err(DhError); }
                let o: [u8; 32] = kani::any();
                Ok(o.to_vec())
            }
        }
    }

    // ---- AEAD (Noise nonce form) -------------------------------------------------------------
    pub const NAE: usize = 2;
    pub static mut AE_KEY: [[u8; 32]; NAE] = [[0; 32]; NAE];
    pub static mut AE_NONCE: [u64; NAE] = [0; NAE];
    pub static mut AE_AD: [[u8; 32]; NAE] = [[0; 32]; NAE];
    pub static mut AE_PT: [[u8; 32]; NAE] = [[0; 32]; NAE];
    pub static mut AE_CT: [[u8; 48]; NAE] = [[0; 48]; NAE];
    pub static mut AE_REC: usize = 0;
    pub static mut AE_REP: usize = 0;
    pub fn seal_model(key: &[u8], nonce: u64, ad: &[u8], pt: &[u8]) -> Vec<u8> {
        unsafe {
            let i = AE_REC;
            assert!(i < NAE && key.len() == 32 && ad.len() == 32 && pt.len() == 32, "[C06,C05] Noise X seals exactly two 32-byte values (s, payload) with AD = h");
            AE_KEY[i].copy_from_slice(key);
            AE_NONCE[i] = nonce;
            AE_AD[i].copy_from_slice(ad);
            AE_PT[i].copy_from_slice(pt);
            let c: [u8; 48] = kani::any();
            AE_CT[i] = c;
            AE_REC += 1;
            c.to_vec()
        }
    }
    pub fn open_model(key: &[u8], nonce: u64, ad: &[u8], ct: &[u8]) -> Result<Vec<u8>, ChaPolyDecryptError> {
        unsafe {
            if ct.len() < 16 { return Err(ChaPolyDecryptError); }
            if MODE == 0 {
                // lockstep record: log what is presented, hand out a fresh unconstrained 32-byte plaintext
                let i = AE_REC;
                assert!(i < NAE && key.len() == 32 && ad.len() == 32 && ct.len() == 48, "[C06,C05] Noise X opens exactly two 48-byte values (s, payload) with AD = h");
                let p: [u8; 32] = kani::any();
                match i {
                    0 => { AE_KEY[0].copy_from_slice(key); AE_NONCE[0] = nonce; AE_AD[0].copy_from_slice(ad); AE_CT[0].copy_from_slice(ct); AE_PT[0] = p; }
                    _ => { AE_KEY[1].copy_from_slice(key); AE_NONCE[1] = nonce; AE_AD[1].copy_from_slice(ad); AE_CT[1].copy_from_slice(ct); AE_PT[1] = p; }
                }
                AE_REC += 1;
                return Ok(p.to_vec());
            }
            if MODE == 1 {
                let i = AE_REP;
                AE_REP += 1;
                // ideal AEAD: opens iff (key, nonce, ad, ct) is exactly what was sealed
                if i < AE_REC && key.len() == 32 && eq(key, &AE_KEY[i], 32) && nonce == AE_NONCE[i] && ad.len() == 32 && eq(ad, &AE_AD[i], 32)
                    && ct.len() == 48 && eq(ct, &AE_CT[i], 48) {
                    Ok(AE_PT[i].to_vec())
                } else {
                    Err(ChaPolyDecryptError)
                }
            } else {
                // free mode: any verdict; on success any plaintext of the right length (<= 64 modelled)
                if kani::any() { return Err(ChaPolyDecryptError); }
                let n = ct.len() - 16;
                if n == 32 { let o: [u8; 32] = kani::any(); return Ok(o.to_vec()); }
                if n == 0 { let mut v = vec![0u8; 1]; v.truncate(0); return Ok(v); }
                let o: [u8; 64] = kani::any();
                let m = if n > 64 { 64 } else { n };
                Ok(o[..m].to_vec())
            }
        }
    }

    fn h0() -> [u8; 32] {
        let mut h = [0u8; 32];
        let name = b"Noise_X_25519_ChaChaPoly_SHA256";
        h[..31].copy_from_slice(name);
        h
    }
    /// SHA call k was made on a || b (k literal at every call site)
    fn cat_eq(k: usize, a: &[u8], b: &[u8]) -> bool {
        unsafe {
            match k {
                0 => a.len() == 32 && b.len() == 4 && eq(&SHA_IN0, a, 32) && eq(&SHA_IN0[32..], b, 4),
                1 => a.len() == 32 && b.len() == 32 && eq(&SHA_IN1, a, 32) && eq(&SHA_IN1[32..], b, 32),
                2 => a.len() == 32 && b.len() == 32 && eq(&SHA_IN2, a, 32) && eq(&SHA_IN2[32..], b, 32),
                3 => a.len() == 32 && b.len() == 48 && eq(&SHA_IN3, a, 32) && eq(&SHA_IN3[32..], b, 48),
                _ => a.len() == 32 && b.len() == 48 && eq(&SHA_IN4, a, 32) && eq(&SHA_IN4[32..], b, 48),
            }
        }
    }

    /// C06(B) / C05(1): the writer's trace and message are exactly what the Noise X pattern prescribes.
    /// The assertions are split over three harnesses (same run, different slice of the obligations) because the
    /// SAT instance with all of them exceeds the memory of this machine:
    ///   part 0: the hash chain (five MixHash inputs, handshake hash);  part 1: DH pairs and the HKDF chain;
    ///   part 2: what is sealed under which key/nonce/AD and the layout of the 128-byte message.
    fn noise_write(part: u8) {
        let prologue: [u8; 4] = kani::any();
        let (s_priv, s_pub, e_priv, e_pub, rs, payload): ([u8; 32], [u8; 32], [u8; 32], [u8; 32], [u8; 32], [u8; 32]) =
            (kani::any(), kani::any(), kani::any(), kani::any(), kani::any(), kani::any());
        unsafe { MODE = 0; }
        let mut hs = HandshakeState::init_x(
            true, &prologue,
            PrivateKey::try_from(&s_priv[..]).unwrap(), PublicKey::try_from(&s_pub[..]).unwrap(),
            Some(PrivateKey::try_from(&e_priv[..]).unwrap()), Some(PublicKey::try_from(&e_pub[..]).unwrap()),
            Some(PublicKey::try_from(&rs[..]).unwrap()));
        let w = hs.write_message(&payload);
        assert!(w.is_ok(), "[C01,C05] with both DH results non-zero the handshake message is produced");
        let w = w.unwrap();
        unsafe {
            assert!(SHA_REC == 5 && HK_REC == 3 && DH_REC == 2 && AE_REC == 2, "[C06,C05] Noise X: five hashes, two MixKey + Split, two DH, two AEAD");
            let z = h0();
            if part == 0 {
                assert!(SHA_SHAPE_OK, "[C06,C05] hash inputs have the lengths the pattern prescribes (36, 64, 64, 80, 80)");
                assert!(cat_eq(0, &z, &prologue), "[C06,C05] h = SHA256(h0 || prologue), h0 = protocol name zero-padded to 32 bytes");
                assert!(cat_eq(1, &SHA_OUT[0], &rs), "[C06,C05] pre-message <- s: initiator mixes the RECIPIENT's static public key");
                assert!(cat_eq(2, &SHA_OUT[1], &e_pub), "[C06,C05] token e: MixHash(e.public)");
                assert!(cat_eq(3, &SHA_OUT[2], &AE_CT[0]), "[C06,C05] MixHash(encrypted s)");
                assert!(cat_eq(4, &SHA_OUT[3], &AE_CT[1]), "[C06,C05] MixHash(encrypted payload)");
                assert!(eq(&w.handshake_hash, &SHA_OUT[4], 32), "[C06,C01] handshake hash = final h");
            } else if part == 1 {
                assert!(eq(&DH_K[0], &e_priv, 32) && eq(&DH_U[0], &rs, 32), "[C06,C05] token es: DH(ephemeral private, recipient static public)");
                assert!(eq(&HK_CK[0], &z, 32) && HK_IKMLEN[0] == 32 && eq(&HK_IKM[0], &DH_OUT[0], 32), "[C06,C05] MixKey(es): HKDF(ck = h0, DH result)");
                assert!(eq(&DH_K[1], &s_priv, 32) && eq(&DH_U[1], &rs, 32), "[C06,C05] token ss: DH(sender static private, recipient static public)");
                assert!(eq(&HK_CK[1], &HK_O1[0], 32) && HK_IKMLEN[1] == 32 && eq(&HK_IKM[1], &DH_OUT[1], 32), "[C06,C05] MixKey(ss): HKDF(ck from es, DH result)");
                assert!(eq(&HK_CK[2], &HK_O1[1], 32) && HK_IKMLEN[2] == 0, "[C06] Split(): HKDF(ck, empty)");
            } else if part == 2 {
                assert!(eq(&AE_KEY[0], &HK_O2[0], 32) && AE_NONCE[0] == 0 && eq(&AE_AD[0], &SHA_OUT[2], 32) && eq(&AE_PT[0], &s_pub, 32), "[C06,C05] token s: EncryptAndHash(sender static public) under the es key, nonce 0, AD = h");
                assert!(eq(&AE_KEY[1], &HK_O2[1], 32) && AE_NONCE[1] == 0 && eq(&AE_AD[1], &SHA_OUT[3], 32) && eq(&AE_PT[1], &payload, 32), "[C06,C05] payload: EncryptAndHash under the ss key, nonce reset to 0, AD = h");
                assert!(hs.get_pubkey().is_none(), "[C05] the initiator side never reports a sender key");
            } else {
                assert!(w.message.len() == 128, "[C06,C08] the handshake message is 128 bytes");
                let m: [u8; 128] = w.message[..].try_into().unwrap();
                assert!(eq(&m, &e_pub, 32), "[C06,C08] message begins with the ephemeral public key in clear");
                assert!(eq(&m[32..], &AE_CT[0], 48), "[C06,C08] encrypted static key follows e");
                assert!(eq(&m[80..], &AE_CT[1], 48), "[C06,C08] message = e || enc(s) || enc(payload)");
            }
        }
        core::mem::forget(hs); core::mem::forget(w);
    }
    #[kani::proof]
    #[kani::stub(crate::sha256, sha_model)]
    #[kani::stub(crate::hkdf_noise, hkdf_model)]
    #[kani::stub(crate::x25519, dh_model)]
    #[kani::stub(crate::chapoly_encrypt_noise, seal_model)]
    #[kani::unwind(6)]
    pub fn noise_write_lockstep_hash() { noise_write(0); }
    #[kani::proof]
    #[kani::stub(crate::sha256, sha_model)]
    #[kani::stub(crate::hkdf_noise, hkdf_model)]
    #[kani::stub(crate::x25519, dh_model)]
    #[kani::stub(crate::chapoly_encrypt_noise, seal_model)]
    #[kani::unwind(6)]
    pub fn noise_write_lockstep_keys() { noise_write(1); }
    #[kani::proof]
    #[kani::stub(crate::sha256, sha_model)]
    #[kani::stub(crate::hkdf_noise, hkdf_model)]
    #[kani::stub(crate::x25519, dh_model)]
    #[kani::stub(crate::chapoly_encrypt_noise, seal_model)]
    #[kani::unwind(6)]
    pub fn noise_write_lockstep_seal() { noise_write(2); }
    #[kani::proof]
    #[kani::stub(crate::sha256, sha_model)]
    #[kani::stub(crate::hkdf_noise, hkdf_model)]
    #[kani::stub(crate::x25519, dh_model)]
    #[kani::stub(crate::chapoly_encrypt_noise, seal_model)]
    #[kani::unwind(6)]
    pub fn noise_write_lockstep_msg() { noise_write(3); }

    /// C01(c) / C05(1) / C06(B): the reader's trace on ANY 128-byte message is exactly what the Noise X pattern prescribes
    /// for a responder: same hash chain over (prologue, own static key, e, enc s, enc payload), es = DH(own static, e),
    /// ss = DH(own static, decrypted sender key), both values opened under the es / ss key with nonce 0 and AD = h; it
    /// returns the opened payload, reports the opened static key as sender, and the final h as handshake hash.
    /// Together with noise_write_lockstep_* (same hash-chain inputs, commuted DH pairs, same keys/AD) this gives
    /// read(write(k)) = (k, sender key, same hash) for every interpretation of the primitives.
    fn noise_read(part: u8) {
        let prologue: [u8; 4] = kani::any();
        let (r_priv, r_pub): ([u8; 32], [u8; 32]) = (kani::any(), kani::any());
        let msg: [u8; 128] = kani::any();
        unsafe { MODE = 0; }
        let mut hr = HandshakeState::init_x(
            false, &prologue,
            PrivateKey::try_from(&r_priv[..]).unwrap(), PublicKey::try_from(&r_pub[..]).unwrap(), None, None, None);
        let rd = hr.read_message(&msg);
        assert!(rd.is_ok(), "[C01,C06] when both DH results are non-zero and both values open, the responder accepts");
        let rd = rd.unwrap();
        unsafe {
            assert!(SHA_REC == 5 && HK_REC == 3 && DH_REC == 2 && AE_REC == 2, "[C06,C05] responder: five hashes, three HKDF, two DH, two AEAD");
            let z = h0();
            if part == 0 {
                assert!(SHA_SHAPE_OK, "[C06,C05] hash inputs have the lengths the pattern prescribes (36, 64, 64, 80, 80)");
                assert!(cat_eq(0, &z, &prologue), "[C06,C05] h = SHA256(h0 || prologue)");
                assert!(cat_eq(1, &SHA_OUT[0], &r_pub), "[C06,C05] pre-message <- s: the responder mixes ITS OWN static public key (only the addressed key computes the sender's h)");
                assert!(cat_eq(2, &SHA_OUT[1], &msg[..32]), "[C06,C05] token e: MixHash(first 32 message bytes)");
                assert!(cat_eq(3, &SHA_OUT[2], &msg[32..80]), "[C06,C05] MixHash(encrypted s = message bytes 32..80)");
                assert!(cat_eq(4, &SHA_OUT[3], &msg[80..]), "[C06,C05] MixHash(encrypted payload = message bytes 80..128)");
                assert!(eq(&rd.handshake_hash, &SHA_OUT[4], 32), "[C06,C01] handshake hash = final h");
            } else if part == 1 {
                assert!(eq(&DH_K[0], &r_priv, 32) && eq(&DH_U[0], &msg[..32], 32), "[C06,C05] token es: DH(own static private, e)");
                assert!(eq(&HK_CK[0], &z, 32) && HK_IKMLEN[0] == 32 && eq(&HK_IKM[0], &DH_OUT[0], 32), "[C06,C05] MixKey(es): HKDF(ck = h0, DH result)");
                assert!(eq(&DH_K[1], &r_priv, 32) && eq(&DH_U[1], &AE_PT[0], 32), "[C06,C05] token ss: DH(own static private, the sender key just decrypted) - a sender key whose private half was not used cannot produce this value");
                assert!(eq(&HK_CK[1], &HK_O1[0], 32) && HK_IKMLEN[1] == 32 && eq(&HK_IKM[1], &DH_OUT[1], 32), "[C06,C05] MixKey(ss): HKDF(ck from es, DH result)");
                assert!(eq(&HK_CK[2], &HK_O1[1], 32) && HK_IKMLEN[2] == 0, "[C06] Split(): HKDF(ck, empty)");
            } else {
                assert!(eq(&AE_KEY[0], &HK_O2[0], 32) && AE_NONCE[0] == 0 && eq(&AE_AD[0], &SHA_OUT[2], 32) && eq(&AE_CT[0], &msg[32..80], 48), "[C06,C05] token s: DecryptAndHash(message 32..80) under the es key, nonce 0, AD = h");
                assert!(eq(&AE_KEY[1], &HK_O2[1], 32) && AE_NONCE[1] == 0 && eq(&AE_AD[1], &SHA_OUT[3], 32) && eq(&AE_CT[1], &msg[80..], 48), "[C06,C05] payload: DecryptAndHash(message 80..128) under the ss key, nonce reset to 0, AD = h");
                assert!(rd.message.len() == 32 && eq(&rd.message, &AE_PT[1], 32), "[C01] the payload returned is what the second AEAD opened");
                let pk = hr.get_pubkey();
                assert!(pk.is_some() && eq(pk.as_ref().unwrap().as_bytes(), &AE_PT[0], 32), "[C01,C05] the sender reported is the static key the first AEAD opened (the one ss was computed with)");
                core::mem::forget(pk);
            }
        }
        core::mem::forget(hr); core::mem::forget(rd);
    }
    #[kani::proof]
    #[kani::stub(crate::sha256, sha_model)]
    #[kani::stub(crate::hkdf_noise, hkdf_model)]
    #[kani::stub(crate::x25519, dh_model)]
    #[kani::stub(crate::chapoly_decrypt_noise, open_model)]
    #[kani::unwind(6)]
    pub fn noise_read_lockstep_hash() { noise_read(0); }
    #[kani::proof]
    #[kani::stub(crate::sha256, sha_model)]
    #[kani::stub(crate::hkdf_noise, hkdf_model)]
    #[kani::stub(crate::x25519, dh_model)]
    #[kani::stub(crate::chapoly_decrypt_noise, open_model)]
    #[kani::unwind(6)]
    pub fn noise_read_lockstep_keys() { noise_read(1); }
    #[kani::proof]
    #[kani::stub(crate::sha256, sha_model)]
    #[kani::stub(crate::hkdf_noise, hkdf_model)]
    #[kani::stub(crate::x25519, dh_model)]
    #[kani::stub(crate::chapoly_decrypt_noise, open_model)]
    #[kani::unwind(6)]
    pub fn noise_read_lockstep_open() { noise_read(2); }

    /// C05(3): a refused DH (all-zero shared secret) at es or ss aborts write_message with DhError.
    #[kani::proof]
    #[kani::stub(crate::sha256, sha_model)]
    #[kani::stub(crate::hkdf_noise, hkdf_model)]
    #[kani::stub(crate::x25519, dh_model)]
    #[kani::stub(crate::chapoly_encrypt_noise, seal_model)]
    #[kani::unwind(6)]
    pub fn noise_dh_refusal() {
        let (s_priv, s_pub, e_priv, e_pub, rs, payload): ([u8; 32], [u8; 32], [u8; 32], [u8; 32], [u8; 32], [u8; 32]) =
            (kani::any(), kani::any(), kani::any(), kani::any(), kani::any(), kani::any());
        let at: usize = kani::any();
        kani::assume(at <= 1);
        unsafe { MODE = 0; DH_FAIL_AT = at; }
        let mut hs = HandshakeState::init_x(
            true, &[0x65, 0x67, 0x6b, 0x10],
            PrivateKey::try_from(&s_priv[..]).unwrap(), PublicKey::try_from(&s_pub[..]).unwrap(),
            Some(PrivateKey::try_from(&e_priv[..]).unwrap()), Some(PublicKey::try_from(&e_pub[..]).unwrap()),
            Some(PublicKey::try_from(&rs[..]).unwrap()));
        let w = hs.write_message(&payload);
        assert!(matches!(w, Err(NoiseError::DhError)), "[C05] an all-zero DH result (low-order recipient or ephemeral key) aborts the handshake");
        unsafe {
            assert!(AE_REC <= at, "[C05] nothing is sealed under a key derived from a refused DH");
        }
        kani::cover!(at == 0);
        kani::cover!(at == 1);
        core::mem::forget(hs); core::mem::forget(w);
    }

    /// C09: noise_decrypt on a handshake message of ANY length 0..=140 and any content, primitives unconstrained:
    /// an error or a result, never a panic.
    #[kani::proof]
    #[kani::stub(crate::sha256, sha_model)]
    #[kani::stub(crate::hkdf_noise, hkdf_model)]
    #[kani::stub(crate::x25519, dh_model)]
    #[kani::stub(crate::chapoly_decrypt_noise, open_model)]
    #[kani::unwind(6)]
    pub fn noise_decrypt_any_len() {
        unsafe { MODE = 2; }
        let msg: [u8; 140] = kani::any();
        let len: usize = kani::any();
        kani::assume(len <= 140);
        let (r_priv, r_pub): ([u8; 32], [u8; 32]) = (kani::any(), kani::any());
        let sk = PrivateKey::try_from(&r_priv[..]).unwrap();
        let pk = PublicKey::try_from(&r_pub[..]).unwrap();
        let r = crate::noise_decrypt(&sk, &pk, &[0x65, 0x67, 0x6b, 0x10], &msg[..len]);
        if len < 96 { assert!(r.is_err(), "[C09] a handshake message shorter than 96 bytes is rejected with an error"); }
        if unsafe { DH_REFUSED } { assert!(r.is_err(), "[C05] a handshake whose es or ss DH yields the all-zero result (low-order ephemeral or sender key) is rejected"); }
        kani::cover!(unsafe { DH_REFUSED } && len == 128);
        kani::cover!(len == 0);
        kani::cover!(len == 63 && r.is_err());
        kani::cover!(len == 79);
        kani::cover!(len == 95);
        kani::cover!(len == 128 && r.is_ok());
        kani::cover!(len == 140 && r.is_err());
        core::mem::forget(r); core::mem::forget(sk); core::mem::forget(pk);
    }

    // ---- ephemeral key: where it comes from and that the public half sent belongs to the private half used ----
    pub static mut RNG_N: usize = 0;
    pub static mut RNG_OUT: [u8; 32] = [0; 32];
    pub fn rng_model(len: usize) -> Vec<u8> {
        unsafe {
            RNG_N += 1;
            let o: [u8; 32] = kani::any();
            RNG_OUT = o;
            if len == 32 { o.to_vec() } else { vec![0u8; len] }
        }
    }
    pub static mut DER_N: usize = 0;
    pub static mut DER_IN: [u8; 32] = [0; 32];
    pub static mut DER_OUT: [u8; 32] = [0; 32];
    pub fn derive_model(sk: &[u8]) -> Result<Vec<u8>, DhError> {
        unsafe {
            DER_N += 1;
            if sk.len() == 32 { DER_IN.copy_from_slice(sk); }
            let o: [u8; 32] = kani::any();
            DER_OUT = o;
            Ok(o.to_vec())
        }
    }
    /// C07/C08: whatever combination of ephemeral arguments the caller passes, the 32 bytes sent in clear are the public
    /// half of the private key actually used for `es`: either the caller's pair, or a FRESH 32-byte CSPRNG draw and its
    /// derived public key - never anything derived from a static key.
    #[kani::proof]
    #[kani::stub(crate::sha256, sha_model)]
    #[kani::stub(crate::hkdf_noise, hkdf_model)]
    #[kani::stub(crate::x25519, dh_model)]
    #[kani::stub(crate::chapoly_encrypt_noise, seal_model)]
    #[kani::stub(crate::secure_random, rng_model)]
    #[kani::stub(crate::x25519_derive_public, derive_model)]
    #[kani::unwind(6)]
    pub fn noise_ephemeral_consistency() {
        let (s_priv, s_pub, e_priv, e_pub, rs, payload): ([u8; 32], [u8; 32], [u8; 32], [u8; 32], [u8; 32], [u8; 32]) =
            (kani::any(), kani::any(), kani::any(), kani::any(), kani::any(), kani::any());
        let (have_e, have_epk): (bool, bool) = (kani::any(), kani::any());
        unsafe { MODE = 0; }
        let mut hs = HandshakeState::init_x(
            true, &[0x65, 0x67, 0x6b, 0x10],
            PrivateKey::try_from(&s_priv[..]).unwrap(), PublicKey::try_from(&s_pub[..]).unwrap(),
            if have_e { Some(PrivateKey::try_from(&e_priv[..]).unwrap()) } else { None },
            if have_epk { Some(PublicKey::try_from(&e_pub[..]).unwrap()) } else { None },
            Some(PublicKey::try_from(&rs[..]).unwrap()));
        let w = hs.write_message(&payload);
        assert!(w.is_ok(), "[C01] the handshake message is produced");
        let w = w.unwrap();
        unsafe {
            if have_e && have_epk {
                assert!(RNG_N == 0 && eq(&DH_K[0], &e_priv, 32) && cat_eq(2, &SHA_OUT[1], &e_pub), "[C06] a caller-supplied ephemeral pair is used as given (the public half that is sent and hashed, the private half for es)");
            } else {
                assert!(RNG_N == 1, "[C07,C08] without a complete caller-supplied pair the ephemeral private key is one fresh 32-byte CSPRNG draw");
                assert!(eq(&DH_K[0], &RNG_OUT, 32), "[C07,C08] ... and that draw is the private key used for es");
                assert!(DER_N == 1 && eq(&DER_IN, &RNG_OUT, 32) && cat_eq(2, &SHA_OUT[1], &DER_OUT), "[C07,C08] the ephemeral public key that is sent and hashed is the one derived from that fresh draw - nothing derived from a static key");
            }
        }
        kani::cover!(have_e && !have_epk);
        kani::cover!(!have_e && !have_epk);
        core::mem::forget(hs); core::mem::forget(w);
    }
}
