// Extension harnesses (cfg(kani) only) injected at the end of src/crypto/src/decrypt.rs of a scratch copy of /repo.
// Reuses the header-level environment of verif_hdr_dec (HdrReader, recorders); added after seed C10c was answered
// "inconclusive" instead of "violation" (DESIGN 7.11).

#[allow(dead_code, static_mut_refs, unused_imports, unused_variables)]
pub(crate) mod verif_hdr_dec_x {
    use super::*;
    use crate::decrypt::verif_hdr_dec::*;

    /// C10: an authentic key-mode header is accepted however the source delivers it (in full, or each field one byte
    /// short with the rest on the next call); a header cut short is an error, never a success.
    #[kani::proof]
    #[kani::stub(crate::noise_decrypt, noise_decrypt_rec)]
    #[kani::stub(crate::hkdf_sha256, hkdf_rec)]
    #[kani::stub(crate::decrypt::decrypt_chunks, decrypt_chunks_rec)]
    #[kani::stub(core::fmt::write, fmtwrite_cut)]
    #[kani::unwind(130)]
    pub fn hdr_key_decrypt_short_reads() {
        let mut data: [u8; 140] = kani::any();
        data[0] = 0x65; data[1] = 0x67; data[2] = 0x6b; data[3] = 0x10;
        let len: usize = kani::any();
        kani::assume(len <= 140);
        let (r, rpk): ([u8; 32], [u8; 32]) = (kani::any(), kani::any());
        unsafe { ND_FAIL = false; DC_FAIL = false; }
        let sk = PrivateKey::try_from(&r[..]).unwrap();
        let pk = PublicKey::try_from(&rpk[..]).unwrap();
        let short: bool = kani::any();
        let mut rd = HdrReader { data, len, short };
        let mut w = PCount;
        let res = key_decrypt(&mut rd, &mut w, &sk, &pk, AsymFileFormat::V1);
        unsafe {
            assert!(!R_LIMIT, "[LIMIT] header read-call structure outside what this harness models");
            if len >= 132 {
                assert!(res.is_ok(), "[C10,C01] an authentic header is accepted also when every field arrives in two short reads");
                assert!(R_CONSUMED == 132, "[C10,C06] exactly the 132 header bytes were consumed, none lost or read twice");
            } else {
                assert!(res.is_err(), "[C10,C03] a header that ends early is an error");
            }
        }
        kani::cover!(res.is_ok() && short);
        kani::cover!(res.is_ok() && !short);
        kani::cover!(res.is_err() && len == 131 && short);
        core::mem::forget(res); core::mem::forget(sk);
    }

    /// C10: the same for the password-mode header (magic, 32-byte salt).
    #[kani::proof]
    #[kani::stub(crate::scrypt::scrypt, scrypt_rec)]
    #[kani::stub(crate::decrypt::decrypt_chunks, decrypt_chunks_rec)]
    #[kani::stub(core::fmt::write, fmtwrite_cut)]
    #[kani::unwind(130)]
    pub fn hdr_pass_decrypt_short_reads() {
        let mut data: [u8; 140] = kani::any();
        data[0] = 0x65; data[1] = 0x67; data[2] = 0x6b; data[3] = 0x20;
        let len: usize = kani::any();
        kani::assume(len <= 60);
        unsafe { DC_FAIL = false; }
        let short: bool = kani::any();
        let mut rd = HdrReader { data, len, short };
        let mut w = PCount;
        let pw = [0x70u8, 0x77];
        let res = pass_decrypt(&mut rd, &mut w, &pw[..], PassFileFormat::V1);
        unsafe {
            assert!(!R_LIMIT, "[LIMIT] header read-call structure outside what this harness models");
            if len >= 36 {
                assert!(res.is_ok(), "[C10,C02] an authentic header is accepted also when every field arrives in two short reads");
                assert!(R_CONSUMED == 36, "[C10,C06] exactly the 36 header bytes were consumed, none lost or read twice");
            } else {
                assert!(res.is_err(), "[C10,C03] a header that ends early is an error");
            }
        }
        kani::cover!(res.is_ok() && short);
        kani::cover!(res.is_ok() && !short);
        kani::cover!(res.is_err() && len == 35 && short);
        core::mem::forget(res);
    }
}
