// Extension harnesses (cfg(kani) only) injected at the end of src/crypto/src/lib.rs of a scratch copy of /repo.
// Self-contained: uses nothing from the other injected modules (see vlib/core.py ext_inject_files for why).
//
// verif_wrap_x : C19 -- hmac_sha256 / sha256 wrappers against orion recorders (added after seed C19c was missed)

#[allow(dead_code, static_mut_refs, unused_imports, unused_variables)]
pub(crate) mod verif_wrap_x {
    use crate::*;
    use orion::errors::UnknownCryptoError;
    use orion::hazardous::hash::sha2::sha256::Digest as OD;
    use orion::hazardous::mac::hmac::sha256::{SecretKey as HK, Tag as HT};

    #[derive(Clone, Copy)]
    #[repr(align(16))]
    pub struct Rec { magic: u64, nkey: usize, kptr: *const u8, klen: usize, nmac: usize, dptr: *const u8, dlen: usize, kid: *const u8, out: [u8; 32], ki: usize, kb: u8, di: usize, db: u8 }
    // one struct static with a magic field: Kani 0.68 aliases all-zero constants with all-zero statics (DESIGN 7.9)
    pub static mut R: Rec = Rec { magic: 0x5eed_c19c_0000_0001, nkey: 0, kptr: core::ptr::null(), klen: 0, nmac: 0, dptr: core::ptr::null(), dlen: 0, kid: core::ptr::null(), out: [0; 32], ki: 0, kb: 0, di: 0, db: 0 };

    /// E-HMAC (1): the key constructor records WHICH bytes it was given; the key object it returns is opaque.
    pub fn key_rec(slice: &[u8]) -> Result<HK, UnknownCryptoError> {
        unsafe {
            R.nkey += 1; R.kptr = slice.as_ptr(); R.klen = slice.len();
            if R.ki < slice.len() { R.kb = slice[R.ki]; }
            Ok(core::mem::zeroed::<HK>())
        }
    }
    /// E-HMAC (2): the MAC is an uninterpreted function: any 32 bytes.
    pub fn mac_rec(sk: &HK, data: &[u8]) -> Result<HT, UnknownCryptoError> {
        unsafe {
            R.nmac += 1; R.dptr = data.as_ptr(); R.dlen = data.len(); R.kid = sk as *const HK as *const u8;
            if R.di < data.len() { R.db = data[R.di]; }
            let o: [u8; 32] = kani::any();
            R.out = o;
            HT::from_slice(&o)
        }
    }
    pub fn digest_rec(data: &[u8]) -> Result<OD, UnknownCryptoError> {
        unsafe {
            R.nmac += 1; R.dptr = data.as_ptr(); R.dlen = data.len();
            if R.di < data.len() { R.db = data[R.di]; }
            let o: [u8; 32] = kani::any();
            R.out = o;
            OD::from_slice(&o)
        }
    }

    fn same32(v: &[u8], o: &[u8; 32]) -> bool {
        if v.len() != 32 { return false; }
        let a = u128::from_le_bytes(v[..16].try_into().unwrap()) == u128::from_le_bytes(o[..16].try_into().unwrap());
        let b = u128::from_le_bytes(v[16..].try_into().unwrap()) == u128::from_le_bytes(o[16..].try_into().unwrap());
        a && b
    }

    /// C19: hmac_sha256(key, data) hands the WHOLE key (also keys longer than the 64-byte block, which RFC 2104 hashes
    /// first - orion's job) and the whole data to orion's HMAC-SHA256 and returns its 32-byte tag unchanged.
    #[kani::proof]
    #[kani::stub(orion::hazardous::mac::hmac::sha256::SecretKey::from_slice, key_rec)]
    #[kani::stub(orion::hazardous::mac::hmac::sha256::HmacSha256::hmac, mac_rec)]
    #[kani::unwind(40)]
    pub fn c19_hmac_plumbing() {
        let key: [u8; 140] = kani::any();
        let data: [u8; 16] = kani::any();
        let (kl, dl): (usize, usize) = (kani::any(), kani::any());
        kani::assume(kl <= 140 && dl <= 16);
        // content, not address: the byte at a solver-chosen index of what the primitive receives equals the caller's
        let (ki, di): (usize, usize) = (kani::any(), kani::any());
        kani::assume(ki < 140 && di < 16);
        unsafe { R.ki = ki; R.di = di; }
        let out = hmac_sha256(&key[..kl], &data[..dl]);
        let c = unsafe { R };
        assert!(c.magic == 0x5eed_c19c_0000_0001, "[ENV] recorder state intact");
        assert!(c.nkey == 1 && c.nmac == 1, "[C19] one key, one MAC computation");
        assert!(c.klen == kl && (ki >= kl || c.kb == key[ki]), "[C19,C06] the HMAC key is the caller's key, whole (keys longer than 64 bytes included)");
        assert!(c.dlen == dl && (di >= dl || c.db == data[di]), "[C19,C06] the MAC is computed over the caller's data, whole");
        assert!(same32(&out, &c.out), "[C19] returns the primitive's 32-byte tag unchanged");
        kani::cover!(kl == 0 && dl == 0);
        kani::cover!(kl == 65);
        kani::cover!(kl == 140 && dl == 16);
    }

    /// C19: sha256(data) = orion SHA-256 of the whole input, 32 bytes returned unchanged.
    #[kani::proof]
    #[kani::stub(orion::hazardous::hash::sha2::sha256::Sha256::digest, digest_rec)]
    #[kani::unwind(40)]
    pub fn c19_sha256_plumbing() {
        let data: [u8; 140] = kani::any();
        let dl: usize = kani::any();
        kani::assume(dl <= 140);
        let di: usize = kani::any();
        kani::assume(di < 140);
        unsafe { R.di = di; }
        let out = sha256(&data[..dl]);
        let c = unsafe { R };
        assert!(c.magic == 0x5eed_c19c_0000_0001, "[ENV] recorder state intact");
        assert!(c.nmac == 1 && c.dlen == dl && (di >= dl || c.db == data[di]), "[C19] one digest over the caller's data, whole (block-boundary lengths 55/56/64/65 included)");
        assert!(same32(&out, &c.out), "[C19] returns the primitive's 32-byte digest unchanged");
        kani::cover!(dl == 0);
        kani::cover!(dl == 64);
        kani::cover!(dl == 140);
    }

    // ---- public-key derivation -----------------------------------------------------------------
    use orion::hazardous::ecc::x25519::{PrivateKey as XS, PublicKey as XP};
    pub fn xs_rec(slice: &[u8]) -> Result<XS, UnknownCryptoError> {
        unsafe { R.nkey += 1; R.kptr = slice.as_ptr(); R.klen = slice.len(); if R.ki < slice.len() { R.kb = slice[R.ki]; } Ok(core::mem::zeroed::<XS>()) }
    }
    pub static mut XFAIL: (u64, bool) = (0x5eed_c19c_0000_0002, false);
    pub fn xp_rec<'a>(sk: &'a XS) -> Result<XP, UnknownCryptoError> where 'a: 'a {
        unsafe {
            R.nmac += 1;
            if XFAIL.1 { return Err(UnknownCryptoError); }
            let o: [u8; 32] = kani::any();
            // orion keeps a public key as a field element: what comes back out is its canonical encoding
            let p = XP::from(o);
            R.out = p.to_bytes();
            Ok(p)
        }
    }

    /// C19/C05: x25519_derive_public(sk) and PrivateKey::to_public hand exactly the 32 private-key bytes to orion's
    /// base-point multiplication and return its 32-byte result unchanged; a refusal becomes DhError.
    #[kani::proof]
    #[kani::stub(orion::hazardous::ecc::x25519::PrivateKey::from_slice, xs_rec)]
    #[kani::stub(<orion::hazardous::ecc::x25519::PublicKey as core::convert::TryFrom<&orion::hazardous::ecc::x25519::PrivateKey>>::try_from, xp_rec)]
    #[kani::unwind(40)]
    pub fn c19_derive_public_plumbing() {
        let k: [u8; 32] = kani::any();
        let fail: bool = kani::any();
        let ki: usize = kani::any();
        kani::assume(ki < 32);
        unsafe { XFAIL.1 = fail; R.ki = ki; }
        let r = x25519_derive_public(&k);
        let c = unsafe { R };
        assert!(c.magic == 0x5eed_c19c_0000_0001 && unsafe { XFAIL.0 } == 0x5eed_c19c_0000_0002, "[ENV] recorder state intact");
        assert!(c.nkey == 1 && c.klen == 32 && c.kb == k[ki], "[C19,C05] the scalar handed to orion is the caller's private key, whole");
        assert!(c.nmac == 1, "[C19] one base-point multiplication");
        match &r {
            Ok(v) => assert!(!fail && same32(v, &c.out), "[C19,C05] the public key returned is the primitive's result, unchanged"),
            Err(_) => assert!(fail, "[C19] an error only if the primitive refused"),
        }
        kani::cover!(r.is_ok());
        kani::cover!(r.is_err());
        core::mem::forget(r);
    }
}
