use std::env;
use std::ffi::OsString;
use std::fs;
use std::io::ErrorKind;
use std::iter;
use std::path::Path;
use std::process::{self, Command, Stdio};
use std::str;

#[cfg(all(feature = "backtrace", not(feature = "std")))]
compile_error! {
    "`backtrace` feature without `std` feature is not supported"
}

fn main() {
    let mut error_generic_member_access = false;
    if cfg!(feature = "std") {
        println!("cargo:rerun-if-changed=build/probe.rs");

        let consider_rustc_bootstrap;
        if compile_probe(false) {
            // This is a nightly or dev compiler, so it supports unstable
            // features regardless of RUSTC_BOOTSTRAP. No need to rerun build
            // script if RUSTC_BOOTSTRAP is changed.
            error_generic_member_access = true;
            consider_rustc_bootstrap = false;
        } else if let Some(rustc_bootstrap) = env::var_os("RUSTC_BOOTSTRAP") {
            if compile_probe(true) {
                // This is a stable or beta compiler for which the user has set
                // RUSTC_BOOTSTRAP to turn on unstable features. Rerun build
                // script if they change it.
                error_generic_member_access = true;
                consider_rustc_bootstrap = true;
            } else if rustc_bootstrap == "1" {
                // This compiler does not support the generic member access API
                // in the form that anyhow expects. No need to pay attention to
                // RUSTC_BOOTSTRAP.
                error_generic_member_access = false;
                consider_rustc_bootstrap = false;
            } else {
                // This is a stable or beta compiler for which RUSTC_BOOTSTRAP
                // is set to restrict the use of unstable features by this
                // crate.
                error_generic_member_access = false;
                consider_rustc_bootstrap = true;
            }
        } else {
            // Without RUSTC_BOOTSTRAP, this compiler does not support the
            // generic member access API in the form that anyhow expects, but
            // try again if the user turns on unstable features.
            error_generic_member_access = false;
            consider_rustc_bootstrap = true;
        }

        if error_generic_member_access {
            println!("cargo:rustc-cfg=std_backtrace");
            println!("cargo:rustc-cfg=error_generic_member_access");
        }

        if consider_rustc_bootstrap {
            println!("cargo:rerun-if-env-changed=RUSTC_BOOTSTRAP");
        }
    }

    let rustc = match rustc_minor_version() {
        Some(rustc) => rustc,
        None => return,
    };

    if rustc >= 80 {
        println!("cargo:rustc-check-cfg=cfg(anyhow_nightly_testing)");
        println!("cargo:rustc-check-cfg=cfg(anyhow_no_core_error)");
        println!("cargo:rustc-check-cfg=cfg(anyhow_no_core_unwind_safe)");
        println!("cargo:rustc-check-cfg=cfg(anyhow_no_fmt_arguments_as_str)");
        println!("cargo:rustc-check-cfg=cfg(anyhow_no_ptr_addr_of)");
        println!("cargo:rustc-check-cfg=cfg(anyhow_no_unsafe_op_in_unsafe_fn_lint)");
        println!("cargo:rustc-check-cfg=cfg(error_generic_member_access)");
        println!("cargo:rustc-check-cfg=cfg(std_backtrace)");
    }

    if rustc < 51 {
        // core::ptr::addr_of
        // https://blog.rust-lang.org/2021/03/25/Rust-1.51.0.html#stabilized-apis
        println!("cargo:rustc-cfg=anyhow_no_ptr_addr_of");
    }

    if rustc < 52 {
        // core::fmt::Arguments::as_str
        // https://blog.rust-lang.org/2021/05/06/Rust-1.52.0.html#stabilized-apis
        println!("cargo:rustc-cfg=anyhow_no_fmt_arguments_as_str");

        // #![deny(unsafe_op_in_unsafe_fn)]
        // https://github.com/rust-lang/rust/issues/71668
        println!("cargo:rustc-cfg=anyhow_no_unsafe_op_in_unsafe_fn_lint");
    }

    if rustc < 56 {
        // core::panic::{UnwindSafe, RefUnwindSafe}
        // https://blog.rust-lang.org/2021/10/21/Rust-1.56.0.html#stabilized-apis
        println!("cargo:rustc-cfg=anyhow_no_core_unwind_safe");
    }

    if !error_generic_member_access && cfg!(feature = "std") && rustc >= 65 {
        // std::backtrace::Backtrace
        // https://blog.rust-lang.org/2022/11/03/Rust-1.65.0.html#stabilized-apis
        println!("cargo:rustc-cfg=std_backtrace");
    }

    if rustc < 81 {
        // core::error::Error
        // https://blog.rust-lang.org/2024/09/05/Rust-1.81.0.html#coreerrorerror
        println!("cargo:rustc-cfg=anyhow_no_core_error");
    }
}

fn compile_probe(rustc_bootstrap: bool) -> bool {
    if env::var_os("RUSTC_STAGE").is_some() {
        // We are running inside rustc bootstrap. This is a highly non-standard
        // environment with issues such as:
        //
        //     https://github.com/rust-lang/cargo/issues/11138
        //     https://github.com/rust-lang/rust/issues/114839
        //
        // Let's just not use nightly features here.
        return false;
    }

    let rustc = cargo_env_var("RUSTC");
    let out_dir = cargo_env_var("OUT_DIR");
    let out_subdir = Path::new(&out_dir).join("probe");
    let probefile = Path::new("build").join("probe.rs");

    if let Err(err) = fs::create_dir(&out_subdir) {
        if err.kind() != ErrorKind::AlreadyExists {
            eprintln!("Failed to create {}: {}", out_subdir.display(), err);
            process::exit(1);
        }
    }

    let rustc_wrapper = env::var_os("RUSTC_WRAPPER").filter(|wrapper| !wrapper.is_empty());
    let rustc_workspace_wrapper =
        env::var_os("RUSTC_WORKSPACE_WRAPPER").filter(|wrapper| !wrapper.is_empty());
    let mut rustc = rustc_wrapper
        .into_iter()
        .chain(rustc_workspace_wrapper)
        .chain(iter::once(rustc));
    let mut cmd = Command::new(rustc.next().unwrap());
    cmd.args(rustc);

    if !rustc_bootstrap {
        cmd.env_remove("RUSTC_BOOTSTRAP");
    }

    cmd.stderr(Stdio::null())
        .arg("--edition=2018")
        .arg("--crate-name=anyhow")
        .arg("--crate-type=lib")
        .arg("--emit=dep-info,metadata")
        .arg("--cap-lints=allow")
        .arg("--out-dir")
        .arg(&out_subdir)
        .arg(probefile);

    if let Some(target) = env::var_os("TARGET") {
        cmd.arg("--target").arg(target);
    }

    // If Cargo wants to set RUSTFLAGS, use that.
    if let Ok(rustflags) = env::var("CARGO_ENCODED_RUSTFLAGS") {
        if !rustflags.is_empty() {
            for arg in rustflags.split('\x1f') {
                cmd.arg(arg);
            }
        }
    }

    let success = match cmd.status() {
        Ok(status) => status.success(),
        Err(_) => false,
    };

    // Clean up to avoid leaving nondeterministic absolute paths in the dep-info
    // file in OUT_DIR, which causes nonreproducible builds in build systems
    // that treat the entire OUT_DIR as an artifact.
    if let Err(err) = fs::remove_dir_all(&out_subdir) {
        if err.kind() != ErrorKind::NotFound {
            eprintln!("Failed to clean up {}: {}", out_subdir.display(), err);
            process::exit(1);
        }
    }

    success
}

fn rustc_minor_version() -> Option<u32> {
    let rustc = cargo_env_var("RUSTC");
    let output = Command::new(rustc).arg("--version").output().ok()?;
    let version = str::from_utf8(&output.stdout).ok()?;
    let mut pieces = version.split('.');
    if pieces.next() != Some("rustc 1") {
        return None;
    }
    pieces.next()?.parse().ok()
}

fn cargo_env_var(key: &str) -> OsString {
    env::var_os(key).unwrap_or_else(|| {
        eprintln!(
            "Environment variable ${} is not set during execution of build script",
            key,
        );
        process::exit(1);
    })
}
