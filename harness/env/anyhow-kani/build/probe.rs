// This code exercises the surface area that we expect of the Error generic
// member access API. If the current toolchain is able to compile it, then
// anyhow is able to provide backtrace support.

#![feature(error_generic_member_access)]

use core::error::{self, Error, Request};
use core::fmt::{self, Debug, Display};
use std::backtrace::Backtrace;

struct MyError(Thing);
struct Thing;

impl Debug for MyError {
    fn fmt(&self, _formatter: &mut fmt::Formatter) -> fmt::Result {
        unimplemented!()
    }
}

impl Display for MyError {
    fn fmt(&self, _formatter: &mut fmt::Formatter) -> fmt::Result {
        unimplemented!()
    }
}

impl Error for MyError {
    fn provide<'a>(&'a self, request: &mut Request<'a>) {
        request.provide_ref(&self.0);
    }
}

const _: fn(&dyn Error) -> Option<&Backtrace> = |err| error::request_ref::<Backtrace>(err);

// Include in sccache cache key.
const _: Option<&str> = option_env!("RUSTC_BOOTSTRAP");
