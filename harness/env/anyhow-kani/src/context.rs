use crate::error::ContextError;
use crate::{Context, Error, StdError};
use core::convert::Infallible;
use core::fmt::{self, Debug, Display, Write};

#[cfg(error_generic_member_access)]
use core::error::Request;

mod ext {
    use super::*;

    pub trait StdError {
        fn ext_context<C>(self, context: C) -> Error
        where
            C: Display + Send + Sync + 'static;
    }

    #[cfg(any(feature = "std", not(anyhow_no_core_error)))]
    impl<E> StdError for E
    where
        E: crate::StdError + Send + Sync + 'static,
    {
        fn ext_context<C>(self, context: C) -> Error
        where
            C: Display + Send + Sync + 'static,
        {
            let backtrace = backtrace_if_absent!(&self);
            Error::construct_from_context(context, self, backtrace)
        }
    }

    impl StdError for Error {
        fn ext_context<C>(self, context: C) -> Error
        where
            C: Display + Send + Sync + 'static,
        {
            self.context(context)
        }
    }
}

impl<T, E> Context<T, E> for Result<T, E>
where
    E: ext::StdError + Send + Sync + 'static,
{
    fn context<C>(self, context: C) -> Result<T, Error>
    where
        C: Display + Send + Sync + 'static,
    {
        // Not using map_err to save 2 useless frames off the captured backtrace
        // in ext_context.
        match self {
            Ok(ok) => Ok(ok),
            Err(error) => Err(error.ext_context(context)),
        }
    }

    fn with_context<C, F>(self, context: F) -> Result<T, Error>
    where
        C: Display + Send + Sync + 'static,
        F: FnOnce() -> C,
    {
        match self {
            Ok(ok) => Ok(ok),
            Err(error) => Err(error.ext_context(context())),
        }
    }
}

/// ```
/// # type T = ();
/// #
/// use anyhow::{Context, Result};
///
/// fn maybe_get() -> Option<T> {
///     # const IGNORE: &str = stringify! {
///     ...
///     # };
///     # unimplemented!()
/// }
///
/// fn demo() -> Result<()> {
///     let t = maybe_get().context("there is no T")?;
///     # const IGNORE: &str = stringify! {
///     ...
///     # };
///     # unimplemented!()
/// }
/// ```
impl<T> Context<T, Infallible> for Option<T> {
    fn context<C>(self, context: C) -> Result<T, Error>
    where
        C: Display + Send + Sync + 'static,
    {
        // Not using ok_or_else to save 2 useless frames off the captured
        // backtrace.
        match self {
            Some(ok) => Ok(ok),
            None => Err(Error::construct_from_display(context, backtrace!())),
        }
    }

    fn with_context<C, F>(self, context: F) -> Result<T, Error>
    where
        C: Display + Send + Sync + 'static,
        F: FnOnce() -> C,
    {
        match self {
            Some(ok) => Ok(ok),
            None => Err(Error::construct_from_display(context(), backtrace!())),
        }
    }
}

impl<C, E> Debug for ContextError<C, E>
where
    C: Display,
    E: Debug,
{
    fn fmt(&self, f: &mut fmt::Formatter) -> fmt::Result {
        f.debug_struct("Error")
            .field("context", &Quoted(&self.context))
            .field("source", &self.error)
            .finish()
    }
}

impl<C, E> Display for ContextError<C, E>
where
    C: Display,
{
    fn fmt(&self, f: &mut fmt::Formatter) -> fmt::Result {
        Display::fmt(&self.context, f)
    }
}

impl<C, E> StdError for ContextError<C, E>
where
    C: Display,
    E: StdError + 'static,
{
    fn source(&self) -> Option<&(dyn StdError + 'static)> {
        Some(&self.error)
    }

    #[cfg(error_generic_member_access)]
    fn provide<'a>(&'a self, request: &mut Request<'a>) {
        StdError::provide(&self.error, request);
    }
}

impl<C> StdError for ContextError<C, Error>
where
    C: Display,
{
    fn source(&self) -> Option<&(dyn StdError + 'static)> {
        Some(unsafe { crate::ErrorImpl::error(self.error.inner.by_ref()) })
    }

    #[cfg(error_generic_member_access)]
    fn provide<'a>(&'a self, request: &mut Request<'a>) {
        Error::provide(&self.error, request);
    }
}

struct Quoted<C>(C);

impl<C> Debug for Quoted<C>
where
    C: Display,
{
    fn fmt(&self, formatter: &mut fmt::Formatter) -> fmt::Result {
        formatter.write_char('"')?;
        Quoted(&mut *formatter).write_fmt(format_args!("{}", self.0))?;
        formatter.write_char('"')?;
        Ok(())
    }
}

impl Write for Quoted<&mut fmt::Formatter<'_>> {
    fn write_str(&mut self, s: &str) -> fmt::Result {
        Display::fmt(&s.escape_debug(), self.0)
    }
}

pub(crate) mod private {
    use super::*;

    pub trait Sealed {}

    impl<T, E> Sealed for Result<T, E> where E: ext::StdError {}
    impl<T> Sealed for Option<T> {}
}
