use crate::Error;
use alloc::string::String;
use core::fmt::{self, Debug, Write};
use core::mem::MaybeUninit;
use core::ptr;
use core::slice;
use core::str;

#[doc(hidden)]
pub trait BothDebug {
    fn __dispatch_ensure(self, msg: &'static str) -> Error;
}

impl<A, B> BothDebug for (A, B)
where
    A: Debug,
    B: Debug,
{
    fn __dispatch_ensure(self, msg: &'static str) -> Error {
        render(msg, &self.0, &self.1)
    }
}

#[doc(hidden)]
pub trait NotBothDebug {
    fn __dispatch_ensure(self, msg: &'static str) -> Error;
}

impl<A, B> NotBothDebug for &(A, B) {
    fn __dispatch_ensure(self, msg: &'static str) -> Error {
        Error::msg(msg)
    }
}

struct Buf {
    bytes: [MaybeUninit<u8>; 40],
    written: usize,
}

impl Buf {
    fn new() -> Self {
        Buf {
            bytes: [MaybeUninit::uninit(); 40],
            written: 0,
        }
    }

    fn as_str(&self) -> &str {
        unsafe {
            str::from_utf8_unchecked(slice::from_raw_parts(
                self.bytes.as_ptr().cast::<u8>(),
                self.written,
            ))
        }
    }
}

impl Write for Buf {
    fn write_str(&mut self, s: &str) -> fmt::Result {
        if s.bytes().any(|b| b == b' ' || b == b'\n') {
            return Err(fmt::Error);
        }

        let remaining = self.bytes.len() - self.written;
        if s.len() > remaining {
            return Err(fmt::Error);
        }

        unsafe {
            ptr::copy_nonoverlapping(
                s.as_ptr(),
                self.bytes.as_mut_ptr().add(self.written).cast::<u8>(),
                s.len(),
            );
        }
        self.written += s.len();
        Ok(())
    }
}

fn render(msg: &'static str, lhs: &dyn Debug, rhs: &dyn Debug) -> Error {
    let mut lhs_buf = Buf::new();
    if fmt::write(&mut lhs_buf, format_args!("{:?}", lhs)).is_ok() {
        let mut rhs_buf = Buf::new();
        if fmt::write(&mut rhs_buf, format_args!("{:?}", rhs)).is_ok() {
            let lhs_str = lhs_buf.as_str();
            let rhs_str = rhs_buf.as_str();
            // "{msg} ({lhs} vs {rhs})"
            let len = msg.len() + 2 + lhs_str.len() + 4 + rhs_str.len() + 1;
            let mut string = String::with_capacity(len);
            string.push_str(msg);
            string.push_str(" (");
            string.push_str(lhs_str);
            string.push_str(" vs ");
            string.push_str(rhs_str);
            string.push(')');
            return Error::msg(string);
        }
    }
    Error::msg(msg)
}

#[doc(hidden)]
#[macro_export]
macro_rules! __parse_ensure {
    (atom () $bail:tt $fuel:tt {($($rhs:tt)+) ($($lhs:tt)+) $op:tt} $dup:tt $(,)?) => {
        $crate::__fancy_ensure!($($lhs)+, $op, $($rhs)+)
    };

    // low precedence control flow constructs

    (0 $stack:tt ($($bail:tt)*) $fuel:tt $parse:tt $dup:tt return $($rest:tt)*) => {
        $crate::__fallback_ensure!($($bail)*)
    };

    (0 $stack:tt ($($bail:tt)*) $fuel:tt $parse:tt $dup:tt break $($rest:tt)*) => {
        $crate::__fallback_ensure!($($bail)*)
    };

    (0 $stack:tt ($($bail:tt)*) $fuel:tt $parse:tt $dup:tt continue $($rest:tt)*) => {
        $crate::__fallback_ensure!($($bail)*)
    };

    (0 $stack:tt ($($bail:tt)*) $fuel:tt $parse:tt $dup:tt yield $($rest:tt)*) => {
        $crate::__fallback_ensure!($($bail)*)
    };

    (0 $stack:tt ($($bail:tt)*) $fuel:tt $parse:tt $dup:tt move $($rest:tt)*) => {
        $crate::__fallback_ensure!($($bail)*)
    };

    // unary operators

    (0 $stack:tt $bail:tt (~$($fuel:tt)*) {($($buf:tt)*) $($parse:tt)*} ($deref:tt $($dup:tt)*) * $($rest:tt)*) => {
        $crate::__parse_ensure!(0 $stack $bail ($($fuel)*) {($($buf)* $deref) $($parse)*} ($($rest)*) $($rest)*)
    };

    (0 $stack:tt $bail:tt (~$($fuel:tt)*) {($($buf:tt)*) $($parse:tt)*} ($not:tt $($dup:tt)*) ! $($rest:tt)*) => {
        $crate::__parse_ensure!(0 $stack $bail ($($fuel)*) {($($buf)* $not) $($parse)*} ($($rest)*) $($rest)*)
    };

    (0 $stack:tt $bail:tt (~$($fuel:tt)*) {($($buf:tt)*) $($parse:tt)*} ($neg:tt $($dup:tt)*) - $($rest:tt)*) => {
        $crate::__parse_ensure!(0 $stack $bail ($($fuel)*) {($($buf)* $neg) $($parse)*} ($($rest)*) $($rest)*)
    };

    (0 $stack:tt $bail:tt (~$($fuel:tt)*) {($($buf:tt)*) $($parse:tt)*} ($let:tt $($dup:tt)*) let $($rest:tt)*) => {
        $crate::__parse_ensure!(pat $stack $bail ($($fuel)*) {($($buf)* $let) $($parse)*} ($($rest)*) $($rest)*)
    };

    (0 $stack:tt $bail:tt (~$($fuel:tt)*) {($($buf:tt)*) $($parse:tt)*} ($lifetime:tt $colon:tt $($dup:tt)*) $label:lifetime : $($rest:tt)*) => {
        $crate::__parse_ensure!(0 $stack $bail ($($fuel)*) {($($buf)* $lifetime $colon) $($parse)*} ($($rest)*) $($rest)*)
    };

    (0 $stack:tt $bail:tt (~$($fuel:tt)*) {($($buf:tt)*) $($parse:tt)*} ($and:tt $mut:tt $($dup:tt)*) &mut $($rest:tt)*) => {
        $crate::__parse_ensure!(0 $stack $bail ($($fuel)*) {($($buf)* $and $mut) $($parse)*} ($($rest)*) $($rest)*)
    };

    (0 $stack:tt $bail:tt (~$($fuel:tt)*) {($($buf:tt)*) $($parse:tt)*} ($and:tt $raw:tt $mut:tt $($dup:tt)*) &raw mut $($rest:tt)*) => {
        $crate::__parse_ensure!(0 $stack $bail ($($fuel)*) {($($buf)* $and $raw $mut) $($parse)*} ($($rest)*) $($rest)*)
    };

    (0 $stack:tt $bail:tt (~$($fuel:tt)*) {($($buf:tt)*) $($parse:tt)*} ($and:tt $raw:tt $const:tt $($dup:tt)*) &raw const $($rest:tt)*) => {
        $crate::__parse_ensure!(0 $stack $bail ($($fuel)*) {($($buf)* $and $raw $const) $($parse)*} ($($rest)*) $($rest)*)
    };

    (0 $stack:tt $bail:tt (~$($fuel:tt)*) {($($buf:tt)*) $($parse:tt)*} ($and:tt $($dup:tt)*) & $($rest:tt)*) => {
        $crate::__parse_ensure!(0 $stack $bail ($($fuel)*) {($($buf)* $and) $($parse)*} ($($rest)*) $($rest)*)
    };

    (0 $stack:tt $bail:tt (~$($fuel:tt)*) {($($buf:tt)*) $($parse:tt)*} ($andand:tt $mut:tt $($dup:tt)*) &&mut $($rest:tt)*) => {
        $crate::__parse_ensure!(0 $stack $bail ($($fuel)*) {($($buf)* $andand $mut) $($parse)*} ($($rest)*) $($rest)*)
    };

    (0 $stack:tt $bail:tt (~$($fuel:tt)*) {($($buf:tt)*) $($parse:tt)*} ($andand:tt $raw:tt $mut:tt $($dup:tt)*) &&raw mut $($rest:tt)*) => {
        $crate::__parse_ensure!(0 $stack $bail ($($fuel)*) {($($buf)* $andand $raw $mut) $($parse)*} ($($rest)*) $($rest)*)
    };

    (0 $stack:tt $bail:tt (~$($fuel:tt)*) {($($buf:tt)*) $($parse:tt)*} ($andand:tt $raw:tt $const:tt $($dup:tt)*) &&raw const $($rest:tt)*) => {
        $crate::__parse_ensure!(0 $stack $bail ($($fuel)*) {($($buf)* $andand $raw $const) $($parse)*} ($($rest)*) $($rest)*)
    };

    (0 $stack:tt $bail:tt (~$($fuel:tt)*) {($($buf:tt)*) $($parse:tt)*} ($andand:tt $($dup:tt)*) && $($rest:tt)*) => {
        $crate::__parse_ensure!(0 $stack $bail ($($fuel)*) {($($buf)* $andand) $($parse)*} ($($rest)*) $($rest)*)
    };

    // control flow constructs

    (0 $stack:tt $bail:tt (~$($fuel:tt)*) {($($buf:tt)*) $($parse:tt)*} ($if:tt $($dup:tt)*) if $($rest:tt)*) => {
        $crate::__parse_ensure!(0 (cond $stack) $bail ($($fuel)*) {($($buf)* $if) $($parse)*} ($($rest)*) $($rest)*)
    };

    (0 $stack:tt $bail:tt (~$($fuel:tt)*) {($($buf:tt)*) $($parse:tt)*} ($match:tt $($dup:tt)*) match $($rest:tt)*) => {
        $crate::__parse_ensure!(0 (cond $stack) $bail ($($fuel)*) {($($buf)* $match) $($parse)*} ($($rest)*) $($rest)*)
    };

    (0 $stack:tt $bail:tt (~$($fuel:tt)*) {($($buf:tt)*) $($parse:tt)*} ($while:tt $($dup:tt)*) while $($rest:tt)*) => {
        $crate::__parse_ensure!(0 (cond $stack) $bail ($($fuel)*) {($($buf)* $while) $($parse)*} ($($rest)*) $($rest)*)
    };

    (0 $stack:tt $bail:tt (~$($fuel:tt)*) {($($buf:tt)*) $($parse:tt)*} ($for:tt $($dup:tt)*) for $($rest:tt)*) => {
        $crate::__parse_ensure!(pat (cond $stack) $bail ($($fuel)*) {($($buf)* $for) $($parse)*} ($($rest)*) $($rest)*)
    };

    (atom (cond $stack:tt) $bail:tt (~$($fuel:tt)*) {($($buf:tt)*) $($parse:tt)*} ($brace:tt $($dup:tt)*) {$($block:tt)*} $($rest:tt)*) => {
        $crate::__parse_ensure!(cond $stack $bail ($($fuel)*) {($($buf)* $brace) $($parse)*} ($($rest)*) $($rest)*)
    };

    (cond $stack:tt $bail:tt (~$($fuel:tt)*) {($($buf:tt)*) $($parse:tt)*} ($else:tt $if:tt $($dup:tt)*) else if $($rest:tt)*) => {
        $crate::__parse_ensure!(0 (cond $stack) $bail ($($fuel)*) {($($buf)* $else $if) $($parse)*} ($($rest)*) $($rest)*)
    };

    (cond $stack:tt $bail:tt (~$($fuel:tt)*) {($($buf:tt)*) $($parse:tt)*} ($else:tt $brace:tt $($dup:tt)*) else {$($block:tt)*} $($rest:tt)*) => {
        $crate::__parse_ensure!(atom $stack $bail ($($fuel)*) {($($buf)* $else $brace) $($parse)*} ($($rest)*) $($rest)*)
    };

    (cond $stack:tt $bail:tt (~$($fuel:tt)*) $parse:tt $dup:tt $($rest:tt)*) => {
        $crate::__parse_ensure!(atom $stack $bail ($($fuel)*) $parse $dup $($rest)*)
    };

    // atomic expressions

    (0 $stack:tt $bail:tt (~$($fuel:tt)*) {($($buf:tt)*) $($parse:tt)*} ($paren:tt $($dup:tt)*) ($($content:tt)*) $($rest:tt)*) => {
        $crate::__parse_ensure!(atom $stack $bail ($($fuel)*) {($($buf)* $paren) $($parse)*} ($($rest)*) $($rest)*)
    };

    (0 $stack:tt $bail:tt (~$($fuel:tt)*) {($($buf:tt)*) $($parse:tt)*} ($bracket:tt $($dup:tt)*) [$($array:tt)*] $($rest:tt)*) => {
        $crate::__parse_ensure!(atom $stack $bail ($($fuel)*) {($($buf)* $bracket) $($parse)*} ($($rest)*) $($rest)*)
    };

    (0 $stack:tt $bail:tt (~$($fuel:tt)*) {($($buf:tt)*) $($parse:tt)*} ($brace:tt $($dup:tt)*) {$($block:tt)*} $($rest:tt)*) => {
        $crate::__parse_ensure!(atom $stack $bail ($($fuel)*) {($($buf)* $brace) $($parse)*} ($($rest)*) $($rest)*)
    };

    (0 $stack:tt $bail:tt (~$($fuel:tt)*) {($($buf:tt)*) $($parse:tt)*} ($loop:tt $block:tt $($dup:tt)*) loop {$($body:tt)*} $($rest:tt)*) => {
        $crate::__parse_ensure!(atom $stack $bail ($($fuel)*) {($($buf)* $loop $block) $($parse)*} ($($rest)*) $($rest)*)
    };

    (0 $stack:tt $bail:tt (~$($fuel:tt)*) {($($buf:tt)*) $($parse:tt)*} ($async:tt $block:tt $($dup:tt)*) async {$($body:tt)*} $($rest:tt)*) => {
        $crate::__parse_ensure!(atom $stack $bail ($($fuel)*) {($($buf)* $async $block) $($parse)*} ($($rest)*) $($rest)*)
    };

    (0 $stack:tt $bail:tt (~$($fuel:tt)*) {($($buf:tt)*) $($parse:tt)*} ($async:tt $move:tt $block:tt $($dup:tt)*) async move {$($body:tt)*} $($rest:tt)*) => {
        $crate::__parse_ensure!(atom $stack $bail ($($fuel)*) {($($buf)* $async $move $block) $($parse)*} ($($rest)*) $($rest)*)
    };

    (0 $stack:tt $bail:tt (~$($fuel:tt)*) {($($buf:tt)*) $($parse:tt)*} ($unsafe:tt $block:tt $($dup:tt)*) unsafe {$($body:tt)*} $($rest:tt)*) => {
        $crate::__parse_ensure!(atom $stack $bail ($($fuel)*) {($($buf)* $unsafe $block) $($parse)*} ($($rest)*) $($rest)*)
    };

    (0 $stack:tt $bail:tt (~$($fuel:tt)*) {($($buf:tt)*) $($parse:tt)*} ($const:tt $block:tt $($dup:tt)*) const {$($body:tt)*} $($rest:tt)*) => {
        // TODO: this is mostly useless due to https://github.com/rust-lang/rust/issues/86730
        $crate::__parse_ensure!(atom $stack $bail ($($fuel)*) {($($buf)* $const $block) $($parse)*} ($($rest)*) $($rest)*)
    };

    (0 $stack:tt $bail:tt (~$($fuel:tt)*) {($($buf:tt)*) $($parse:tt)*} ($literal:tt $($dup:tt)*) $lit:literal $($rest:tt)*) => {
        $crate::__parse_ensure!(atom $stack $bail ($($fuel)*) {($($buf)* $literal) $($parse)*} ($($rest)*) $($rest)*)
    };

    // path expressions

    (0 $stack:tt $bail:tt (~$($fuel:tt)*) {($($buf:tt)*) $($parse:tt)*} ($colons:tt $ident:tt $($dup:tt)*) :: $i:ident $($rest:tt)*) => {
        $crate::__parse_ensure!(epath (atom $stack) $bail ($($fuel)*) {($($buf)* $colons $ident) $($parse)*} ($($rest)*) $($rest)*)
    };

    (0 $stack:tt $bail:tt (~$($fuel:tt)*) {($($buf:tt)*) $($parse:tt)*} ($ident:tt $($dup:tt)*) $i:ident $($rest:tt)*) => {
        $crate::__parse_ensure!(epath (atom $stack) $bail ($($fuel)*) {($($buf)* $ident) $($parse)*} ($($rest)*) $($rest)*)
    };

    (0 $stack:tt $bail:tt (~$($fuel:tt)*) {($($buf:tt)*) $($parse:tt)*} ($langle:tt $($dup:tt)*) < $($rest:tt)*) => {
        $crate::__parse_ensure!(type (qpath (epath (atom $stack))) $bail ($($fuel)*) {($($buf)* $langle) $($parse)*} ($($rest)*) $($rest)*)
    };

    (epath $stack:tt $bail:tt (~$($fuel:tt)*) {($($buf:tt)*) $($parse:tt)*} ($colons:tt $langle:tt $($dup:tt)*) :: < $($rest:tt)*) => {
        $crate::__parse_ensure!(generic (epath $stack) $bail ($($fuel)*) {($($buf)* $colons $langle) $($parse)*} ($($rest)*) $($rest)*)
    };

    (epath $stack:tt $bail:tt (~$($fuel:tt)*) {($($buf:tt)*) $($parse:tt)*} ($colons:tt $langle:tt $($dup:tt)*) :: << $($rest:tt)*) => {
        $crate::__parse_ensure!(type (qpath (tpath (arglist (epath $stack)))) $bail ($($fuel)*) {($($buf)* $colons $langle) $($parse)*} ($($rest)*) $($rest)*)
    };

    (epath $stack:tt ($($bail:tt)*) (~$($fuel:tt)*) {($($buf:tt)*) $($parse:tt)*} $dup:tt :: <- - $($rest:tt)*) => {
        $crate::__fallback_ensure!($($bail)*)
    };

    (epath $stack:tt $bail:tt (~$($fuel:tt)*) {($($buf:tt)*) $($parse:tt)*} ($colons:tt $larrow:tt $($dup:tt)*) :: <- $lit:literal $($rest:tt)*) => {
        $crate::__parse_ensure!(generic (epath $stack) $bail ($($fuel)*) {($($buf)* $colons $larrow) $($parse)*} ($($dup)*) $($dup)*)
    };

    (epath $stack:tt $bail:tt (~$($fuel:tt)*) {($($buf:tt)*) $($parse:tt)*} ($colons:tt $ident:tt $($dup:tt)*) :: $i:ident $($rest:tt)*) => {
        $crate::__parse_ensure!(epath $stack $bail ($($fuel)*) {($($buf)* $colons $ident) $($parse)*} ($($rest)*) $($rest)*)
    };

    (epath ($pop:ident $stack:tt) $bail:tt (~$($fuel:tt)*) {($($buf:tt)*) $($parse:tt)*} ($bang:tt $args:tt $($dup:tt)*) ! ($($mac:tt)*) $($rest:tt)*) => {
        $crate::__parse_ensure!($pop $stack $bail ($($fuel)*) {($($buf)* $bang $args) $($parse)*} ($($rest)*) $($rest)*)
    };

    (epath ($pop:ident $stack:tt) $bail:tt (~$($fuel:tt)*) {($($buf:tt)*) $($parse:tt)*} ($bang:tt $args:tt $($dup:tt)*) ! [$($mac:tt)*] $($rest:tt)*) => {
        $crate::__parse_ensure!($pop $stack $bail ($($fuel)*) {($($buf)* $bang $args) $($parse)*} ($($rest)*) $($rest)*)
    };

    (epath ($pop:ident $stack:tt) $bail:tt (~$($fuel:tt)*) {($($buf:tt)*) $($parse:tt)*} ($bang:tt $args:tt $($dup:tt)*) ! {$($mac:tt)*} $($rest:tt)*) => {
        $crate::__parse_ensure!($pop $stack $bail ($($fuel)*) {($($buf)* $bang $args) $($parse)*} ($($rest)*) $($rest)*)
    };

    (epath (split ($pop:ident $stack:tt)) $bail:tt (~$($fuel:tt)*) $parse:tt $dup:tt $($rest:tt)*) => {
        $crate::__parse_ensure!($pop (split $stack) $bail ($($fuel)*) $parse $dup $($rest)*)
    };

    (epath ($pop:ident $stack:tt) $bail:tt (~$($fuel:tt)*) $parse:tt $dup:tt $($rest:tt)*) => {
        $crate::__parse_ensure!($pop $stack $bail ($($fuel)*) $parse $dup $($rest)*)
    };

    // trailer expressions

    (atom $stack:tt $bail:tt (~$($fuel:tt)*) {($($buf:tt)*) $($parse:tt)*} ($paren:tt $($dup:tt)*) ($($call:tt)*) $($rest:tt)*) => {
        $crate::__parse_ensure!(atom $stack $bail ($($fuel)*) {($($buf)* $paren) $($parse)*} ($($rest)*) $($rest)*)
    };

    (atom $stack:tt $bail:tt (~$($fuel:tt)*) {($($buf:tt)*) $($parse:tt)*} ($bracket:tt $($dup:tt)*) [$($index:tt)*] $($rest:tt)*) => {
        $crate::__parse_ensure!(atom $stack $bail ($($fuel)*) {($($buf)* $bracket) $($parse)*} ($($rest)*) $($rest)*)
    };

    (atom $stack:tt $bail:tt (~$($fuel:tt)*) {($($buf:tt)*) $($parse:tt)*} ($brace:tt $($dup:tt)*) {$($init:tt)*} $($rest:tt)*) => {
        $crate::__parse_ensure!(atom $stack $bail ($($fuel)*) {($($buf)* $brace) $($parse)*} ($($rest)*) $($rest)*)
    };

    (atom $stack:tt $bail:tt (~$($fuel:tt)*) {($($buf:tt)*) $($parse:tt)*} ($question:tt $($dup:tt)*) ? $($rest:tt)*) => {
        $crate::__parse_ensure!(atom $stack $bail ($($fuel)*) {($($buf)* $question) $($parse)*} ($($rest)*) $($rest)*)
    };

    (atom $stack:tt $bail:tt (~$($fuel:tt)*) {($($buf:tt)*) $($parse:tt)*} ($dot:tt $ident:tt $colons:tt $langle:tt $($dup:tt)*) . $i:ident :: < $($rest:tt)*) => {
        $crate::__parse_ensure!(generic (atom $stack) $bail ($($fuel)*) {($($buf)* $dot $ident $colons $langle) $($parse)*} ($($rest)*) $($rest)*)
    };

    (atom $stack:tt $bail:tt (~$($fuel:tt)*) {($($buf:tt)*) $($parse:tt)*} ($dot:tt $ident:tt $colons:tt $langle:tt $($dup:tt)*) . $i:ident :: << $($rest:tt)*) => {
        $crate::__parse_ensure!(type (qpath (tpath (arglist (atom $stack)))) $bail ($($fuel)*) {($($buf)* $dot $ident $colons $langle) $($parse)*} ($($rest)*) $($rest)*)
    };

    (atom $stack:tt ($($bail:tt)*) (~$($fuel:tt)*) {($($buf:tt)*) $($parse:tt)*} $dup:tt . $i:ident :: <- - $($rest:tt)*) => {
        $crate::__fallback_ensure!($($bail)*)
    };

    (atom $stack:tt $bail:tt (~$($fuel:tt)*) {($($buf:tt)*) $($parse:tt)*} ($dot:tt $ident:tt $colons:tt $larrow:tt $($dup:tt)*) . $i:ident :: <- $lit:literal $($rest:tt)*) => {
        $crate::__parse_ensure!(generic (atom $stack) $bail ($($fuel)*) {($($buf)* $dot $ident $colons $larrow) $($parse)*} ($($dup)*) $($dup)*)
    };

    (atom $stack:tt $bail:tt (~$($fuel:tt)*) {($($buf:tt)*) $($parse:tt)*} ($dot:tt $field:tt $($dup:tt)*) . $i:ident $($rest:tt)*) => {
        $crate::__parse_ensure!(atom $stack $bail ($($fuel)*) {($($buf)* $dot $field) $($parse)*} ($($rest)*) $($rest)*)
    };

    (atom $stack:tt ($($bail:tt)*) (~$($fuel:tt)*) {($($buf:tt)*) $($parse:tt)*} $dup:tt . - $($rest:tt)*) => {
        $crate::__fallback_ensure!($($bail)*)
    };

    (atom $stack:tt $bail:tt (~$($fuel:tt)*) {($($buf:tt)*) $($parse:tt)*} ($dot:tt $index:tt $($dup:tt)*) . $lit:literal $($rest:tt)*) => {
        $crate::__parse_ensure!(atom $stack $bail ($($fuel)*) {($($buf)* $dot $index) $($parse)*} ($($rest)*) $($rest)*)
    };

    (atom $stack:tt $bail:tt (~$($fuel:tt)*) {($($buf:tt)*) $($parse:tt)*} ($as:tt $($dup:tt)*) as $($rest:tt)*) => {
        $crate::__parse_ensure!(type (atom $stack) $bail ($($fuel)*) {($($buf)* $as) $($parse)*} ($($rest)*) $($rest)*)
    };

    // types

    (type ($pop:ident $stack:tt) $bail:tt (~$($fuel:tt)*) {($($buf:tt)*) $($parse:tt)*} ($bracket:tt $($dup:tt)*) [$($content:tt)*] $($rest:tt)*) => {
        $crate::__parse_ensure!($pop $stack $bail ($($fuel)*) {($($buf)* $bracket) $($parse)*} ($($rest)*) $($rest)*)
    };

    (type ($pop:ident $stack:tt) $bail:tt (~$($fuel:tt)*) {($($buf:tt)*) $($parse:tt)*} ($paren:tt $($dup:tt)*) ($($content:tt)*) $($rest:tt)*) => {
        $crate::__parse_ensure!($pop $stack $bail ($($fuel)*) {($($buf)* $paren) $($parse)*} ($($rest)*) $($rest)*)
    };

    (type $stack:tt $bail:tt (~$($fuel:tt)*) {($($buf:tt)*) $($parse:tt)*} ($star:tt $const:tt $($dup:tt)*) *const $($rest:tt)*) => {
        $crate::__parse_ensure!(type $stack $bail ($($fuel)*) {($($buf)* $star $const) $($parse)*} ($($rest)*) $($rest)*)
    };

    (type $stack:tt $bail:tt (~$($fuel:tt)*) {($($buf:tt)*) $($parse:tt)*} ($star:tt $mut:tt $($dup:tt)*) *mut $($rest:tt)*) => {
        $crate::__parse_ensure!(type $stack $bail ($($fuel)*) {($($buf)* $star $mut) $($parse)*} ($($rest)*) $($rest)*)
    };

    (type $stack:tt $bail:tt (~$($fuel:tt)*) {($($buf:tt)*) $($parse:tt)*} ($and:tt $lifetime:tt $mut:tt $($dup:tt)*) & $l:lifetime mut $($rest:tt)*) => {
        $crate::__parse_ensure!(type $stack $bail ($($fuel)*) {($($buf)* $and $lifetime $mut) $($parse)*} ($($rest)*) $($rest)*)
    };

    (type $stack:tt $bail:tt (~$($fuel:tt)*) {($($buf:tt)*) $($parse:tt)*} ($and:tt $mut:tt $($dup:tt)*) & mut $($rest:tt)*) => {
        $crate::__parse_ensure!(type $stack $bail ($($fuel)*) {($($buf)* $and $mut) $($parse)*} ($($rest)*) $($rest)*)
    };

    (type $stack:tt $bail:tt (~$($fuel:tt)*) {($($buf:tt)*) $($parse:tt)*} ($and:tt $lifetime:tt $($dup:tt)*) & $l:lifetime $($rest:tt)*) => {
        $crate::__parse_ensure!(type $stack $bail ($($fuel)*) {($($buf)* $and $lifetime) $($parse)*} ($($rest)*) $($rest)*)
    };

    (type $stack:tt $bail:tt (~$($fuel:tt)*) {($($buf:tt)*) $($parse:tt)*} ($and:tt $($dup:tt)*) & $($rest:tt)*) => {
        $crate::__parse_ensure!(type $stack $bail ($($fuel)*) {($($buf)* $and) $($parse)*} ($($rest)*) $($rest)*)
    };

    (type $stack:tt $bail:tt (~$($fuel:tt)*) {($($buf:tt)*) $($parse:tt)*} ($and:tt $lifetime:tt $mut:tt $($dup:tt)*) && $l:lifetime mut $($rest:tt)*) => {
        $crate::__parse_ensure!(type $stack $bail ($($fuel)*) {($($buf)* $and $lifetime $mut) $($parse)*} ($($rest)*) $($rest)*)
    };

    (type $stack:tt $bail:tt (~$($fuel:tt)*) {($($buf:tt)*) $($parse:tt)*} ($and:tt $mut:tt $($dup:tt)*) && mut $($rest:tt)*) => {
        $crate::__parse_ensure!(type $stack $bail ($($fuel)*) {($($buf)* $and $mut) $($parse)*} ($($rest)*) $($rest)*)
    };

    (type $stack:tt $bail:tt (~$($fuel:tt)*) {($($buf:tt)*) $($parse:tt)*} ($and:tt $lifetime:tt $($dup:tt)*) && $l:lifetime $($rest:tt)*) => {
        $crate::__parse_ensure!(type $stack $bail ($($fuel)*) {($($buf)* $and $lifetime) $($parse)*} ($($rest)*) $($rest)*)
    };

    (type $stack:tt $bail:tt (~$($fuel:tt)*) {($($buf:tt)*) $($parse:tt)*} ($and:tt $($dup:tt)*) && $($rest:tt)*) => {
        $crate::__parse_ensure!(type $stack $bail ($($fuel)*) {($($buf)* $and) $($parse)*} ($($rest)*) $($rest)*)
    };

    (type $stack:tt ($($bail:tt)*) (~$($fuel:tt)*) {($($buf:tt)*) $($parse:tt)*} $dup:tt unsafe extern - $($rest:tt)*) => {
        $crate::__fallback_ensure!($($bail)*)
    };

    (type $stack:tt $bail:tt (~$($fuel:tt)*) {($($buf:tt)*) $($parse:tt)*} ($unsafe:tt $(extern $($abi:literal)?)? fn $($dup:tt)*) unsafe $($rest:tt)*) => {
        $crate::__parse_ensure!(type $stack $bail ($($fuel)*) {($($buf)* $unsafe) $($parse)*} ($($rest)*) $($rest)*)
    };

    (type $stack:tt ($($bail:tt)*) (~$($fuel:tt)*) {($($buf:tt)*) $($parse:tt)*} $dup:tt extern - $($rest:tt)*) => {
        $crate::__fallback_ensure!($($bail)*)
    };

    (type $stack:tt $bail:tt (~$($fuel:tt)*) {($($buf:tt)*) $($parse:tt)*} ($extern:tt $abi:tt fn $($dup:tt)*) extern $lit:literal $($rest:tt)*) => {
        $crate::__parse_ensure!(type $stack $bail ($($fuel)*) {($($buf)* $extern $abi) $($parse)*} ($($rest)*) $($rest)*)
    };

    (type $stack:tt $bail:tt (~$($fuel:tt)*) {($($buf:tt)*) $($parse:tt)*} ($extern:tt fn $($dup:tt)*) extern $($rest:tt)*) => {
        $crate::__parse_ensure!(type $stack $bail ($($fuel)*) {($($buf)* $extern) $($parse)*} ($($rest)*) $($rest)*)
    };

    (type $stack:tt $bail:tt (~$($fuel:tt)*) {($($buf:tt)*) $($parse:tt)*} ($fn:tt $paren:tt $arrow:tt $($dup:tt)*) fn ($($args:tt)*) -> $($rest:tt)*) => {
        $crate::__parse_ensure!(type $stack $bail ($($fuel)*) {($($buf)* $fn $paren $arrow) $($parse)*} ($($rest)*) $($rest)*)
    };

    (type ($pop:ident $stack:tt) $bail:tt (~$($fuel:tt)*) {($($buf:tt)*) $($parse:tt)*} ($fn:tt $paren:tt $($dup:tt)*) fn ($($args:tt)*) $($rest:tt)*) => {
        $crate::__parse_ensure!($pop $stack $bail ($($fuel)*) {($($buf)* $fn $paren) $($parse)*} ($($rest)*) $($rest)*)
    };

    (type $stack:tt $bail:tt (~$($fuel:tt)*) {($($buf:tt)*) $($parse:tt)*} ($impl:tt $($dup:tt)*) impl $($rest:tt)*) => {
        $crate::__parse_ensure!(type $stack $bail ($($fuel)*) {($($buf)* $impl) $($parse)*} ($($rest)*) $($rest)*)
    };

    (type $stack:tt $bail:tt (~$($fuel:tt)*) {($($buf:tt)*) $($parse:tt)*} ($dyn:tt $($dup:tt)*) dyn $($rest:tt)*) => {
        $crate::__parse_ensure!(type $stack $bail ($($fuel)*) {($($buf)* $dyn) $($parse)*} ($($rest)*) $($rest)*)
    };

    (type ($pop:ident $stack:tt) $bail:tt (~$($fuel:tt)*) {($($buf:tt)*) $($parse:tt)*} ($wild:tt $($dup:tt)*) _ $($rest:tt)*) => {
        $crate::__parse_ensure!($pop $stack $bail ($($fuel)*) {($($buf)* $wild) $($parse)*} ($($rest)*) $($rest)*)
    };

    (type ($pop:ident $stack:tt) $bail:tt (~$($fuel:tt)*) {($($buf:tt)*) $($parse:tt)*} ($never:tt $($dup:tt)*) ! $($rest:tt)*) => {
        $crate::__parse_ensure!($pop $stack $bail ($($fuel)*) {($($buf)* $never) $($parse)*} ($($rest)*) $($rest)*)
    };

    (type $stack:tt $bail:tt (~$($fuel:tt)*) {($($buf:tt)*) $($parse:tt)*} ($for:tt $langle:tt $($dup:tt)*) for < $($rest:tt)*) => {
        $crate::__parse_ensure!(generic (type $stack) $bail ($($fuel)*) {($($buf)* $for $langle) $($parse)*} ($($rest)*) $($rest)*)
    };

    // path types

    (type $stack:tt $bail:tt (~$($fuel:tt)*) {($($buf:tt)*) $($parse:tt)*} ($colons:tt $ident:tt $($dup:tt)*) :: $i:ident $($rest:tt)*) => {
        $crate::__parse_ensure!(tpath $stack $bail ($($fuel)*) {($($buf)* $colons $ident) $($parse)*} ($($rest)*) $($rest)*)
    };

    (type $stack:tt $bail:tt (~$($fuel:tt)*) {($($buf:tt)*) $($parse:tt)*} ($ident:tt $($dup:tt)*) $i:ident $($rest:tt)*) => {
        $crate::__parse_ensure!(tpath $stack $bail ($($fuel)*) {($($buf)* $ident) $($parse)*} ($($rest)*) $($rest)*)
    };

    (type $stack:tt $bail:tt (~$($fuel:tt)*) {($($buf:tt)*) $($parse:tt)*} ($langle:tt $($dup:tt)*) < $($rest:tt)*) => {
        $crate::__parse_ensure!(type (qpath (tpath $stack)) $bail ($($fuel)*) {($($buf)* $langle) $($parse)*} ($($rest)*) $($rest)*)
    };

    (tpath $stack:tt $bail:tt (~$($fuel:tt)*) {($($buf:tt)*) $($parse:tt)*} ($langle:tt $($dup:tt)*) < $($rest:tt)*) => {
        $crate::__parse_ensure!(generic (tpath $stack) $bail ($($fuel)*) {($($buf)* $langle) $($parse)*} ($($rest)*) $($rest)*)
    };

    (tpath $stack:tt $bail:tt (~$($fuel:tt)*) {($($buf:tt)*) $($parse:tt)*} ($langle:tt $($dup:tt)*) << $($rest:tt)*) => {
        $crate::__parse_ensure!(type (qpath (tpath (arglist (tpath $stack)))) $bail ($($fuel)*) {($($buf)* $langle) $($parse)*} ($($rest)*) $($rest)*)
    };

    (tpath $stack:tt ($($bail:tt)*) (~$($fuel:tt)*) {($($buf:tt)*) $($parse:tt)*} $dup:tt <- - $($rest:tt)*) => {
        $crate::__fallback_ensure!($($bail)*)
    };

    (tpath $stack:tt $bail:tt (~$($fuel:tt)*) {($($buf:tt)*) $($parse:tt)*} ($larrow:tt $($dup:tt)*) <- $lit:literal $($rest:tt)*) => {
        $crate::__parse_ensure!(generic (tpath $stack) $bail ($($fuel)*) {($($buf)* $larrow) $($parse)*} ($($dup)*) $($dup)*)
    };

    (tpath $stack:tt $bail:tt (~$($fuel:tt)*) {($($buf:tt)*) $($parse:tt)*} ($colons:tt $langle:tt $($dup:tt)*) :: < $($rest:tt)*) => {
        $crate::__parse_ensure!(generic (tpath $stack) $bail ($($fuel)*) {($($buf)* $colons $langle) $($parse)*} ($($rest)*) $($rest)*)
    };

    (tpath $stack:tt $bail:tt (~$($fuel:tt)*) {($($buf:tt)*) $($parse:tt)*} ($colons:tt $langle:tt $($dup:tt)*) :: << $($rest:tt)*) => {
        $crate::__parse_ensure!(type (qpath (tpath (arglist (tpath $stack)))) $bail ($($fuel)*) {($($buf)* $colons $langle) $($parse)*} ($($rest)*) $($rest)*)
    };

    (tpath $stack:tt ($($bail:tt)*) (~$($fuel:tt)*) {($($buf:tt)*) $($parse:tt)*} $dup:tt :: <- - $($rest:tt)*) => {
        $crate::__fallback_ensure!($($bail)*)
    };

    (tpath $stack:tt $bail:tt (~$($fuel:tt)*) {($($buf:tt)*) $($parse:tt)*} ($colons:tt $larrow:tt $($dup:tt)*) :: <- $lit:literal $($rest:tt)*) => {
        $crate::__parse_ensure!(generic (tpath $stack) $bail ($($fuel)*) {($($buf)* $colons $larrow) $($parse)*} ($($dup)*) $($dup)*)
    };

    (tpath $stack:tt $bail:tt (~$($fuel:tt)*) {($($buf:tt)*) $($parse:tt)*} ($colons:tt $ident:tt $($dup:tt)*) :: $i:ident $($rest:tt)*) => {
        $crate::__parse_ensure!(tpath $stack $bail ($($fuel)*) {($($buf)* $colons $ident) $($parse)*} ($($rest)*) $($rest)*)
    };

    (tpath $stack:tt $bail:tt (~$($fuel:tt)*) {($($buf:tt)*) $($parse:tt)*} ($paren:tt $arrow:tt $($dup:tt)*) ($($args:tt)*) -> $($rest:tt)*) => {
        $crate::__parse_ensure!(type $stack $bail ($($fuel)*) {($($buf)* $paren $arrow) $($parse)*} ($($rest)*) $($rest)*)
    };

    (tpath $stack:tt $bail:tt (~$($fuel:tt)*) {($($buf:tt)*) $($parse:tt)*} ($paren:tt $($dup:tt)*) ($($args:tt)*) $($rest:tt)*) => {
        $crate::__parse_ensure!(object $stack $bail ($($fuel)*) {($($buf)* $paren) $($parse)*} ($($rest)*) $($rest)*)
    };

    (tpath $stack:tt $bail:tt (~$($fuel:tt)*) {($($buf:tt)*) $($parse:tt)*} ($colons:tt $paren:tt $arrow:tt $($dup:tt)*) :: ($($args:tt)*) -> $($rest:tt)*) => {
        $crate::__parse_ensure!(type $stack $bail ($($fuel)*) {($($buf)* $colons $paren $arrow) $($parse)*} ($($rest)*) $($rest)*)
    };

    (tpath $stack:tt $bail:tt (~$($fuel:tt)*) {($($buf:tt)*) $($parse:tt)*} ($colons:tt $paren:tt $($dup:tt)*) :: ($($args:tt)*) $($rest:tt)*) => {
        $crate::__parse_ensure!(object $stack $bail ($($fuel)*) {($($buf)* $colons $paren) $($parse)*} ($($rest)*) $($rest)*)
    };

    (tpath ($pop:ident $stack:tt) $bail:tt (~$($fuel:tt)*) {($($buf:tt)*) $($parse:tt)*} ($bang:tt $args:tt $($dup:tt)*) ! ($($mac:tt)*) $($rest:tt)*) => {
        $crate::__parse_ensure!($pop $stack $bail ($($fuel)*) {($($buf)* $bang $args) $($parse)*} ($($rest)*) $($rest)*)
    };

    (tpath ($pop:ident $stack:tt) $bail:tt (~$($fuel:tt)*) {($($buf:tt)*) $($parse:tt)*} ($bang:tt $args:tt $($dup:tt)*) ! [$($mac:tt)*] $($rest:tt)*) => {
        $crate::__parse_ensure!($pop $stack $bail ($($fuel)*) {($($buf)* $bang $args) $($parse)*} ($($rest)*) $($rest)*)
    };

    (tpath ($pop:ident $stack:tt) $bail:tt (~$($fuel:tt)*) {($($buf:tt)*) $($parse:tt)*} ($bang:tt $args:tt $($dup:tt)*) ! {$($mac:tt)*} $($rest:tt)*) => {
        $crate::__parse_ensure!($pop $stack $bail ($($fuel)*) {($($buf)* $bang $args) $($parse)*} ($($rest)*) $($rest)*)
    };

    (tpath $stack:tt $bail:tt (~$($fuel:tt)*) $parse:tt $dup:tt $($rest:tt)*) => {
        $crate::__parse_ensure!(object $stack $bail ($($fuel)*) $parse $dup $($rest)*)
    };

    // qualified paths

    (qpath (split ($pop:ident $stack:tt)) $bail:tt (~$($fuel:tt)*) {($($buf:tt)*) $($parse:tt)*} ($rangle:tt $colons:tt $ident:tt $($dup:tt)*) >> :: $i:ident $($rest:tt)*) => {
        $crate::__parse_ensure!($pop $stack $bail ($($fuel)*) {($($buf)* $rangle $colons $ident) $($parse)*} ($($rest)*) $($rest)*)
    };

    (qpath ($pop:ident $stack:tt) $bail:tt (~$($fuel:tt)*) {($($buf:tt)*) $($parse:tt)*} ($rangle:tt $colons:tt $ident:tt $($dup:tt)*) > :: $i:ident $($rest:tt)*) => {
        $crate::__parse_ensure!($pop $stack $bail ($($fuel)*) {($($buf)* $rangle $colons $ident) $($parse)*} ($($rest)*) $($rest)*)
    };

    (qpath $stack:tt $bail:tt (~$($fuel:tt)*) {($($buf:tt)*) $($parse:tt)*} ($as:tt $($dup:tt)*) as $($rest:tt)*) => {
        $crate::__parse_ensure!(type (qpath $stack) $bail ($($fuel)*) {($($buf)* $as) $($parse)*} ($($rest)*) $($rest)*)
    };

    // trait objects

    (object (arglist $stack:tt) $bail:tt (~$($fuel:tt)*) {($($buf:tt)*) $($parse:tt)*} ($plus:tt $colons:tt $ident:tt $($dup:tt)*) + :: $i:ident $($rest:tt)*) => {
        $crate::__parse_ensure!(tpath (arglist $stack) $bail ($($fuel)*) {($($buf)* $plus $colons $ident) $($parse)*} ($($rest)*) $($rest)*)
    };

    (object (arglist $stack:tt) $bail:tt (~$($fuel:tt)*) {($($buf:tt)*) $($parse:tt)*} ($plus:tt $ident:tt $($dup:tt)*) + $i:ident $($rest:tt)*) => {
        $crate::__parse_ensure!(tpath (arglist $stack) $bail ($($fuel)*) {($($buf)* $plus $ident) $($parse)*} ($($rest)*) $($rest)*)
    };

    (object (split ($pop:ident $stack:tt)) $bail:tt (~$($fuel:tt)*) $parse:tt $dup:tt $($rest:tt)*) => {
        $crate::__parse_ensure!($pop (split $stack) $bail ($($fuel)*) $parse $dup $($rest)*)
    };

    (object ($pop:ident $stack:tt) $bail:tt (~$($fuel:tt)*) $parse:tt $dup:tt $($rest:tt)*) => {
        $crate::__parse_ensure!($pop $stack $bail ($($fuel)*) $parse $dup $($rest)*)
    };

    // angle bracketed generic arguments

    (generic (split ($pop:ident $stack:tt)) $bail:tt (~$($fuel:tt)*) {($($buf:tt)*) $($parse:tt)*} ($rangle:tt $($dup:tt)*) >> $($rest:tt)*) => {
        $crate::__parse_ensure!($pop $stack $bail ($($fuel)*) {($($buf)* $rangle) $($parse)*} ($($rest)*) $($rest)*)
    };

    (generic ($pop:ident $stack:tt) $bail:tt (~$($fuel:tt)*) {($($buf:tt)*) $($parse:tt)*} ($rangle:tt $($dup:tt)*) > $($rest:tt)*) => {
        $crate::__parse_ensure!($pop $stack $bail ($($fuel)*) {($($buf)* $rangle) $($parse)*} ($($rest)*) $($rest)*)
    };

    (generic ($pop:ident $stack:tt) $bail:tt (~$($fuel:tt)*) {($($buf:tt)*) $($parse:tt)*} ($rangle:tt $($dup:tt)*) >> $($rest:tt)*) => {
        $crate::__parse_ensure!($pop (split $stack) $bail ($($fuel)*) {($($buf)*) $($parse)*} ($rangle $($rest)*) $rangle $($rest)*)
    };

    (generic $stack:tt ($($bail:tt)*) (~$($fuel:tt)*) {($($buf:tt)*) $($parse:tt)*} $dup:tt - - $($rest:tt)*) => {
        $crate::__fallback_ensure!($($bail)*)
    };

    (generic $stack:tt $bail:tt (~$($fuel:tt)*) {($($buf:tt)*) $($parse:tt)*} ($neg:tt $($dup:tt)*) - $lit:literal $($rest:tt)*) => {
        $crate::__parse_ensure!(generic $stack $bail ($($fuel)*) {($($buf)* $neg) $($parse)*} ($($dup)*) $($dup)*)
    };

    (generic $stack:tt ($($bail:tt)*) (~$($fuel:tt)*) {($($buf:tt)*) $($parse:tt)*} $dup:tt - $($rest:tt)*) => {
        $crate::__fallback_ensure!($($bail)*)
    };

    (generic $stack:tt $bail:tt (~$($fuel:tt)*) {($($buf:tt)*) $($parse:tt)*} ($literal:tt $($dup:tt)*) $lit:literal $($rest:tt)*) => {
        $crate::__parse_ensure!(arglist $stack $bail ($($fuel)*) {($($buf)* $literal) $($parse)*} ($($rest)*) $($rest)*)
    };

    (generic $stack:tt $bail:tt (~$($fuel:tt)*) {($($buf:tt)*) $($parse:tt)*} ($brace:tt $($dup:tt)*) {$($block:tt)*} $($rest:tt)*) => {
        $crate::__parse_ensure!(arglist $stack $bail ($($fuel)*) {($($buf)* $brace) $($parse)*} ($($rest)*) $($rest)*)
    };

    (generic $stack:tt $bail:tt (~$($fuel:tt)*) {($($buf:tt)*) $($parse:tt)*} ($lifetime:tt $($dup:tt)*) $l:lifetime $($rest:tt)*) => {
        $crate::__parse_ensure!(arglist $stack $bail ($($fuel)*) {($($buf)* $lifetime) $($parse)*} ($($rest)*) $($rest)*)
    };

    (generic $stack:tt $bail:tt (~$($fuel:tt)*) {($($buf:tt)*) $($parse:tt)*} ($assoc:tt $eq:tt $($dup:tt)*) $ident:ident = $($rest:tt)*) => {
        $crate::__parse_ensure!(type (arglist $stack) $bail ($($fuel)*) {($($buf)* $assoc $eq) $($parse)*} ($($rest)*) $($rest)*)
    };

    (generic $stack:tt $bail:tt (~$($fuel:tt)*) $parse:tt $dup:tt $($rest:tt)*) => {
        $crate::__parse_ensure!(type (arglist $stack) $bail ($($fuel)*) $parse $dup $($rest)*)
    };

    (arglist $stack:tt $bail:tt (~$($fuel:tt)*) {($($buf:tt)*) $($parse:tt)*} ($comma:tt $($dup:tt)*) , $($rest:tt)*) => {
        $crate::__parse_ensure!(generic $stack $bail ($($fuel)*) {($($buf)* $comma) $($parse)*} ($($rest)*) $($rest)*)
    };

    (arglist (split ($pop:ident $stack:tt)) $bail:tt (~$($fuel:tt)*) {($($buf:tt)*) $($parse:tt)*} ($rangle:tt $($dup:tt)*) >> $($rest:tt)*) => {
        $crate::__parse_ensure!($pop $stack $bail ($($fuel)*) {($($buf)*) $rangle $($parse)*} ($($rest)*) $($rest)*)
    };

    (arglist ($pop:ident $stack:tt) $bail:tt (~$($fuel:tt)*) {($($buf:tt)*) $($parse:tt)*} ($rangle:tt $($dup:tt)*) > $($rest:tt)*) => {
        $crate::__parse_ensure!($pop $stack $bail ($($fuel)*) {($($buf)* $rangle) $($parse)*} ($($rest)*) $($rest)*)
    };

    (arglist ($pop:ident $stack:tt) $bail:tt (~$($fuel:tt)*) {($($buf:tt)*) $($parse:tt)*} ($rangle:tt $($dup:tt)*) >> $($rest:tt)*) => {
        $crate::__parse_ensure!($pop (split $stack) $bail ($($fuel)*) {($($buf)*) $($parse)*} ($rangle $($rest)*) $rangle $($rest)*)
    };

    // patterns

    (pat $stack:tt $bail:tt (~$($fuel:tt)*) {($($buf:tt)*) $($parse:tt)*} ($pipe:tt $($dup:tt)*) | $($rest:tt)*) => {
        $crate::__parse_ensure!(pat $stack $bail ($($fuel)*) {($($buf)* $pipe) $($parse)*} ($($rest)*) $($rest)*)
    };

    (pat $stack:tt $bail:tt (~$($fuel:tt)*) {($($buf:tt)*) $($parse:tt)*} ($eq:tt $($dup:tt)*) = $($rest:tt)*) => {
        $crate::__parse_ensure!(0 $stack $bail ($($fuel)*) {($($buf)* $eq) $($parse)*} ($($rest)*) $($rest)*)
    };

    (pat $stack:tt $bail:tt (~$($fuel:tt)*) {($($buf:tt)*) $($parse:tt)*} ($in:tt $($dup:tt)*) in $($rest:tt)*) => {
        $crate::__parse_ensure!(0 $stack $bail ($($fuel)*) {($($buf)* $in) $($parse)*} ($($rest)*) $($rest)*)
    };

    (pat $stack:tt $bail:tt (~$($fuel:tt)*) {($($buf:tt)*) $($parse:tt)*} ($ref:tt $($dup:tt)*) ref $($rest:tt)*) => {
        $crate::__parse_ensure!(pat $stack $bail ($($fuel)*) {($($buf)* $ref) $($parse)*} ($($rest)*) $($rest)*)
    };

    (pat $stack:tt $bail:tt (~$($fuel:tt)*) {($($buf:tt)*) $($parse:tt)*} ($mut:tt $($dup:tt)*) mut $($rest:tt)*) => {
        $crate::__parse_ensure!(pat $stack $bail ($($fuel)*) {($($buf)* $mut) $($parse)*} ($($rest)*) $($rest)*)
    };

    (pat $stack:tt $bail:tt (~$($fuel:tt)*) {($($buf:tt)*) $($parse:tt)*} ($at:tt $($dup:tt)*) @ $($rest:tt)*) => {
        $crate::__parse_ensure!(pat $stack $bail ($($fuel)*) {($($buf)* $at) $($parse)*} ($($rest)*) $($rest)*)
    };

    (pat $stack:tt ($($bail:tt)*) (~$($fuel:tt)*) {($($buf:tt)*) $($parse:tt)*} $dup:tt - - $($rest:tt)*) => {
        $crate::__fallback_ensure!($($bail)*)
    };

    (pat $stack:tt $bail:tt (~$($fuel:tt)*) {($($buf:tt)*) $($parse:tt)*} ($neg:tt $($dup:tt)*) - $lit:literal $($rest:tt)*) => {
        $crate::__parse_ensure!(pat $stack $bail ($($fuel)*) {($($buf)* $neg) $($parse)*} ($($dup)*) $($dup)*)
    };

    (pat $stack:tt ($($bail:tt)*) (~$($fuel:tt)*) {($($buf:tt)*) $($parse:tt)*} $dup:tt - $($rest:tt)*) => {
        $crate::__fallback_ensure!($($bail)*)
    };

    (pat $stack:tt $bail:tt (~$($fuel:tt)*) {($($buf:tt)*) $($parse:tt)*} ($literal:tt $($dup:tt)*) $lit:literal $($rest:tt)*) => {
        $crate::__parse_ensure!(pat $stack $bail ($($fuel)*) {($($buf)* $literal) $($parse)*} ($($rest)*) $($rest)*)
    };

    (pat $stack:tt $bail:tt (~$($fuel:tt)*) {($($buf:tt)*) $($parse:tt)*} ($range:tt $($dup:tt)*) .. $($rest:tt)*) => {
        $crate::__parse_ensure!(pat $stack $bail ($($fuel)*) {($($buf)* $range) $($parse)*} ($($rest)*) $($rest)*)
    };

    (pat $stack:tt $bail:tt (~$($fuel:tt)*) {($($buf:tt)*) $($parse:tt)*} ($range:tt $($dup:tt)*) ..= $($rest:tt)*) => {
        $crate::__parse_ensure!(pat $stack $bail ($($fuel)*) {($($buf)* $range) $($parse)*} ($($rest)*) $($rest)*)
    };

    (pat $stack:tt $bail:tt (~$($fuel:tt)*) {($($buf:tt)*) $($parse:tt)*} ($and:tt $($dup:tt)*) & $($rest:tt)*) => {
        $crate::__parse_ensure!(pat $stack $bail ($($fuel)*) {($($buf)* $and) $($parse)*} ($($rest)*) $($rest)*)
    };

    (pat $stack:tt $bail:tt (~$($fuel:tt)*) {($($buf:tt)*) $($parse:tt)*} ($andand:tt $($dup:tt)*) && $($rest:tt)*) => {
        $crate::__parse_ensure!(pat $stack $bail ($($fuel)*) {($($buf)* $andand) $($parse)*} ($($rest)*) $($rest)*)
    };

    (pat $stack:tt $bail:tt (~$($fuel:tt)*) {($($buf:tt)*) $($parse:tt)*} ($paren:tt $($dup:tt)*) ($($content:tt)*) $($rest:tt)*) => {
        $crate::__parse_ensure!(pat $stack $bail ($($fuel)*) {($($buf)* $paren) $($parse)*} ($($rest)*) $($rest)*)
    };

    (pat $stack:tt $bail:tt (~$($fuel:tt)*) {($($buf:tt)*) $($parse:tt)*} ($bracket:tt $($dup:tt)*) [$($content:tt)*] $($rest:tt)*) => {
        $crate::__parse_ensure!(pat $stack $bail ($($fuel)*) {($($buf)* $bracket) $($parse)*} ($($rest)*) $($rest)*)
    };

    (pat $stack:tt $bail:tt (~$($fuel:tt)*) {($($buf:tt)*) $($parse:tt)*} ($brace:tt $($dup:tt)*) {$($content:tt)*} $($rest:tt)*) => {
        $crate::__parse_ensure!(pat $stack $bail ($($fuel)*) {($($buf)* $brace) $($parse)*} ($($rest)*) $($rest)*)
    };

    (pat $stack:tt $bail:tt (~$($fuel:tt)*) {($($buf:tt)*) $($parse:tt)*} ($wild:tt $($dup:tt)*) _ $($rest:tt)*) => {
        $crate::__parse_ensure!(pat $stack $bail ($($fuel)*) {($($buf)* $wild) $($parse)*} ($($rest)*) $($rest)*)
    };

    (pat $stack:tt $bail:tt (~$($fuel:tt)*) {($($buf:tt)*) $($parse:tt)*} ($colons:tt $ident:tt $($dup:tt)*) :: $i:ident $($rest:tt)*) => {
        $crate::__parse_ensure!(epath (pat $stack) $bail ($($fuel)*) {($($buf)* $colons $ident) $($parse)*} ($($rest)*) $($rest)*)
    };

    (pat $stack:tt $bail:tt (~$($fuel:tt)*) {($($buf:tt)*) $($parse:tt)*} ($ident:tt $($dup:tt)*) $i:ident $($rest:tt)*) => {
        $crate::__parse_ensure!(epath (pat $stack) $bail ($($fuel)*) {($($buf)* $ident) $($parse)*} ($($rest)*) $($rest)*)
    };

    (pat $stack:tt $bail:tt (~$($fuel:tt)*) {($($buf:tt)*) $($parse:tt)*} ($langle:tt $($dup:tt)*) < $($rest:tt)*) => {
        $crate::__parse_ensure!(type (qpath (epath (pat $stack))) $bail ($($fuel)*) {($($buf)* $langle) $($parse)*} ($($rest)*) $($rest)*)
    };

    // comparison binary operators

    (atom () $bail:tt (~$($fuel:tt)*) {($($buf:tt)*) $($parse:tt)*} ($eq:tt $($dup:tt)*) == $($rest:tt)*) => {
        $crate::__parse_ensure!(0 () $bail ($($fuel)*) {() $($parse)* ($($buf)*) $eq} ($($rest)*) $($rest)*)
    };

    (atom $stack:tt $bail:tt (~$($fuel:tt)*) {($($buf:tt)+) $($parse:tt)*} ($eq:tt $($dup:tt)*) == $($rest:tt)*) => {
        $crate::__parse_ensure!(0 $stack $bail ($($fuel)*) {($($buf)* $eq) $($parse)*} ($($rest)*) $($rest)*)
    };

    (atom () $bail:tt (~$($fuel:tt)*) {($($buf:tt)*) $($parse:tt)*} ($le:tt $($dup:tt)*) <= $($rest:tt)*) => {
        $crate::__parse_ensure!(0 () $bail ($($fuel)*) {() $($parse)* ($($buf)*) $le} ($($rest)*) $($rest)*)
    };

    (atom $stack:tt $bail:tt (~$($fuel:tt)*) {($($buf:tt)+) $($parse:tt)*} ($le:tt $($dup:tt)*) <= $($rest:tt)*) => {
        $crate::__parse_ensure!(0 $stack $bail ($($fuel)*) {($($buf)* $le) $($parse)*} ($($rest)*) $($rest)*)
    };

    (atom () $bail:tt (~$($fuel:tt)*) {($($buf:tt)*) $($parse:tt)*} ($lt:tt $($dup:tt)*) < $($rest:tt)*) => {
        $crate::__parse_ensure!(0 () $bail ($($fuel)*) {() $($parse)* ($($buf)*) $lt} ($($rest)*) $($rest)*)
    };

    (atom $stack:tt $bail:tt (~$($fuel:tt)*) {($($buf:tt)+) $($parse:tt)*} ($lt:tt $($dup:tt)*) < $($rest:tt)*) => {
        $crate::__parse_ensure!(0 $stack $bail ($($fuel)*) {($($buf)* $lt) $($parse)*} ($($rest)*) $($rest)*)
    };

    (atom () $bail:tt (~$($fuel:tt)*) {($($buf:tt)*) $($parse:tt)*} ($ne:tt $($dup:tt)*) != $($rest:tt)*) => {
        $crate::__parse_ensure!(0 () $bail ($($fuel)*) {() $($parse)* ($($buf)*) $ne} ($($rest)*) $($rest)*)
    };

    (atom $stack:tt $bail:tt (~$($fuel:tt)*) {($($buf:tt)+) $($parse:tt)*} ($ne:tt $($dup:tt)*) != $($rest:tt)*) => {
        $crate::__parse_ensure!(0 $stack $bail ($($fuel)*) {($($buf)* $ne) $($parse)*} ($($rest)*) $($rest)*)
    };

    (atom () $bail:tt (~$($fuel:tt)*) {($($buf:tt)*) $($parse:tt)*} ($ge:tt $($dup:tt)*) >= $($rest:tt)*) => {
        $crate::__parse_ensure!(0 () $bail ($($fuel)*) {() $($parse)* ($($buf)*) $ge} ($($rest)*) $($rest)*)
    };

    (atom $stack:tt $bail:tt (~$($fuel:tt)*) {($($buf:tt)+) $($parse:tt)*} ($ge:tt $($dup:tt)*) >= $($rest:tt)*) => {
        $crate::__parse_ensure!(0 $stack $bail ($($fuel)*) {($($buf)* $ge) $($parse)*} ($($rest)*) $($rest)*)
    };

    (atom (split ()) $bail:tt (~$($fuel:tt)*) {($($buf:tt)*) $($parse:tt)*} $dup:tt >> $($rest:tt)*) => {
        $crate::__parse_ensure!(0 () $bail ($($fuel)*) {() $($parse)* ($($buf)* > ) > } ($($rest)*) $($rest)*)
    };

    (atom () $bail:tt (~$($fuel:tt)*) {($($buf:tt)*) $($parse:tt)*} ($gt:tt $($dup:tt)*) > $($rest:tt)*) => {
        $crate::__parse_ensure!(0 () $bail ($($fuel)*) {() $($parse)* ($($buf)*) $gt} ($($rest)*) $($rest)*)
    };

    (atom (split $stack:tt) $bail:tt (~$($fuel:tt)*) {($($buf:tt)+) $($parse:tt)*} ($rangle:tt $($dup:tt)*) >> $($rest:tt)*) => {
        $crate::__parse_ensure!(0 $stack $bail ($($fuel)*) {($($buf)* $rangle) $($parse)*} ($($rest)*) $($rest)*)
    };

    (atom $stack:tt $bail:tt (~$($fuel:tt)*) {($($buf:tt)+) $($parse:tt)*} ($gt:tt $($dup:tt)*) > $($rest:tt)*) => {
        $crate::__parse_ensure!(0 $stack $bail ($($fuel)*) {($($buf)* $gt) $($parse)*} ($($rest)*) $($rest)*)
    };

    // high precedence binary operators

    (atom $stack:tt $bail:tt (~$($fuel:tt)*) {($($buf:tt)*) $($parse:tt)*} ($add:tt $($dup:tt)*) + $($rest:tt)*) => {
        $crate::__parse_ensure!(0 $stack $bail ($($fuel)*) {($($buf)* $add) $($parse)*} ($($rest)*) $($rest)*)
    };

    (atom $stack:tt $bail:tt (~$($fuel:tt)*) {($($buf:tt)*) $($parse:tt)*} ($sub:tt $($dup:tt)*) - $($rest:tt)*) => {
        $crate::__parse_ensure!(0 $stack $bail ($($fuel)*) {($($buf)* $sub) $($parse)*} ($($rest)*) $($rest)*)
    };

    (atom $stack:tt $bail:tt (~$($fuel:tt)*) {($($buf:tt)*) $($parse:tt)*} ($mul:tt $($dup:tt)*) * $($rest:tt)*) => {
        $crate::__parse_ensure!(0 $stack $bail ($($fuel)*) {($($buf)* $mul) $($parse)*} ($($rest)*) $($rest)*)
    };

    (atom $stack:tt $bail:tt (~$($fuel:tt)*) {($($buf:tt)*) $($parse:tt)*} ($div:tt $($dup:tt)*) / $($rest:tt)*) => {
        $crate::__parse_ensure!(0 $stack $bail ($($fuel)*) {($($buf)* $div) $($parse)*} ($($rest)*) $($rest)*)
    };

    (atom $stack:tt $bail:tt (~$($fuel:tt)*) {($($buf:tt)*) $($parse:tt)*} ($rem:tt $($dup:tt)*) % $($rest:tt)*) => {
        $crate::__parse_ensure!(0 $stack $bail ($($fuel)*) {($($buf)* $rem) $($parse)*} ($($rest)*) $($rest)*)
    };

    (atom $stack:tt $bail:tt (~$($fuel:tt)*) {($($buf:tt)*) $($parse:tt)*} ($bitxor:tt $($dup:tt)*) ^ $($rest:tt)*) => {
        $crate::__parse_ensure!(0 $stack $bail ($($fuel)*) {($($buf)* $bitxor) $($parse)*} ($($rest)*) $($rest)*)
    };

    (atom $stack:tt $bail:tt (~$($fuel:tt)*) {($($buf:tt)*) $($parse:tt)*} ($bitand:tt $($dup:tt)*) & $($rest:tt)*) => {
        $crate::__parse_ensure!(0 $stack $bail ($($fuel)*) {($($buf)* $bitand) $($parse)*} ($($rest)*) $($rest)*)
    };

    (atom $stack:tt $bail:tt (~$($fuel:tt)*) {($($buf:tt)*) $($parse:tt)*} ($bitor:tt $($dup:tt)*) | $($rest:tt)*) => {
        $crate::__parse_ensure!(0 $stack $bail ($($fuel)*) {($($buf)* $bitor) $($parse)*} ($($rest)*) $($rest)*)
    };

    (atom $stack:tt $bail:tt (~$($fuel:tt)*) {($($buf:tt)*) $($parse:tt)*} ($shl:tt $($dup:tt)*) << $($rest:tt)*) => {
        $crate::__parse_ensure!(0 $stack $bail ($($fuel)*) {($($buf)* $shl) $($parse)*} ($($rest)*) $($rest)*)
    };

    (atom $stack:tt $bail:tt (~$($fuel:tt)*) {($($buf:tt)*) $($parse:tt)*} ($shr:tt $($dup:tt)*) >> $($rest:tt)*) => {
        $crate::__parse_ensure!(0 $stack $bail ($($fuel)*) {($($buf)* $shr) $($parse)*} ($($rest)*) $($rest)*)
    };

    // low precedence binary operators

    (atom ($($stack:tt)+) $bail:tt (~$($fuel:tt)*) {($($buf:tt)*) $($parse:tt)*} ($and:tt $($dup:tt)*) && $($rest:tt)*) => {
        $crate::__parse_ensure!(0 ($($stack)*) $bail ($($fuel)*) {($($buf)* $and) $($parse)*} ($($rest)*) $($rest)*)
    };

    (atom ($($stack:tt)+) $bail:tt (~$($fuel:tt)*) {($($buf:tt)*) $($parse:tt)*} ($or:tt $($dup:tt)*) || $($rest:tt)*) => {
        $crate::__parse_ensure!(0 ($($stack)*) $bail ($($fuel)*) {($($buf)* $or) $($parse)*} ($($rest)*) $($rest)*)
    };

    (atom ($($stack:tt)+) $bail:tt (~$($fuel:tt)*) {($($buf:tt)*) $($parse:tt)*} ($assign:tt $($dup:tt)*) = $($rest:tt)*) => {
        $crate::__parse_ensure!(0 ($($stack)*) $bail ($($fuel)*) {($($buf)* $assign) $($parse)*} ($($rest)*) $($rest)*)
    };

    (atom ($($stack:tt)+) $bail:tt (~$($fuel:tt)*) {($($buf:tt)*) $($parse:tt)*} ($addeq:tt $($dup:tt)*) += $($rest:tt)*) => {
        $crate::__parse_ensure!(0 ($($stack)*) $bail ($($fuel)*) {($($buf)* $addeq) $($parse)*} ($($rest)*) $($rest)*)
    };

    (atom ($($stack:tt)+) $bail:tt (~$($fuel:tt)*) {($($buf:tt)*) $($parse:tt)*} ($subeq:tt $($dup:tt)*) -= $($rest:tt)*) => {
        $crate::__parse_ensure!(0 ($($stack)*) $bail ($($fuel)*) {($($buf)* $subeq) $($parse)*} ($($rest)*) $($rest)*)
    };

    (atom ($($stack:tt)+) $bail:tt (~$($fuel:tt)*) {($($buf:tt)*) $($parse:tt)*} ($muleq:tt $($dup:tt)*) *= $($rest:tt)*) => {
        $crate::__parse_ensure!(0 ($($stack)*) $bail ($($fuel)*) {($($buf)* $muleq) $($parse)*} ($($rest)*) $($rest)*)
    };

    (atom ($($stack:tt)+) $bail:tt (~$($fuel:tt)*) {($($buf:tt)*) $($parse:tt)*} ($diveq:tt $($dup:tt)*) /= $($rest:tt)*) => {
        $crate::__parse_ensure!(0 ($($stack)*) $bail ($($fuel)*) {($($buf)* $diveq) $($parse)*} ($($rest)*) $($rest)*)
    };

    (atom ($($stack:tt)+) $bail:tt (~$($fuel:tt)*) {($($buf:tt)*) $($parse:tt)*} ($remeq:tt $($dup:tt)*) %= $($rest:tt)*) => {
        $crate::__parse_ensure!(0 ($($stack)*) $bail ($($fuel)*) {($($buf)* $remeq) $($parse)*} ($($rest)*) $($rest)*)
    };

    (atom ($($stack:tt)+) $bail:tt (~$($fuel:tt)*) {($($buf:tt)*) $($parse:tt)*} ($bitxoreq:tt $($dup:tt)*) ^= $($rest:tt)*) => {
        $crate::__parse_ensure!(0 ($($stack)*) $bail ($($fuel)*) {($($buf)* $bitxoreq) $($parse)*} ($($rest)*) $($rest)*)
    };

    (atom ($($stack:tt)+) $bail:tt (~$($fuel:tt)*) {($($buf:tt)*) $($parse:tt)*} ($bitandeq:tt $($dup:tt)*) &= $($rest:tt)*) => {
        $crate::__parse_ensure!(0 ($($stack)*) $bail ($($fuel)*) {($($buf)* $bitandeq) $($parse)*} ($($rest)*) $($rest)*)
    };

    (atom ($($stack:tt)+) $bail:tt (~$($fuel:tt)*) {($($buf:tt)*) $($parse:tt)*} ($bitoreq:tt $($dup:tt)*) |= $($rest:tt)*) => {
        $crate::__parse_ensure!(0 ($($stack)*) $bail ($($fuel)*) {($($buf)* $bitoreq) $($parse)*} ($($rest)*) $($rest)*)
    };

    (atom ($($stack:tt)+) $bail:tt (~$($fuel:tt)*) {($($buf:tt)*) $($parse:tt)*} ($shleq:tt $($dup:tt)*) <<= $($rest:tt)*) => {
        $crate::__parse_ensure!(0 ($($stack)*) $bail ($($fuel)*) {($($buf)* $shleq) $($parse)*} ($($rest)*) $($rest)*)
    };

    (atom ($($stack:tt)+) $bail:tt (~$($fuel:tt)*) {($($buf:tt)*) $($parse:tt)*} ($shreq:tt $($dup:tt)*) >>= $($rest:tt)*) => {
        $crate::__parse_ensure!(0 ($($stack)*) $bail ($($fuel)*) {($($buf)* $shreq) $($parse)*} ($($rest)*) $($rest)*)
    };

    // unrecognized expression

    ($state:tt $stack:tt ($($bail:tt)*) $($rest:tt)*) => {
        $crate::__fallback_ensure!($($bail)*)
    };
}

#[doc(hidden)]
#[macro_export]
macro_rules! __fancy_ensure {
    ($lhs:expr, $op:tt, $rhs:expr) => {
        match (&$lhs, &$rhs) {
            (lhs, rhs) => {
                if !(lhs $op rhs) {
                    #[allow(unused_imports)]
                    use $crate::__private::{BothDebug, NotBothDebug};
                    return Err((lhs, rhs).__dispatch_ensure(
                        $crate::__private::concat!(
                            "Condition failed: `",
                            $crate::__private::stringify!($lhs),
                            " ",
                            $crate::__private::stringify!($op),
                            " ",
                            $crate::__private::stringify!($rhs),
                            "`",
                        ),
                    ));
                }
            }
        }
    };
}

#[doc(hidden)]
#[macro_export]
macro_rules! __fallback_ensure {
    ($cond:expr $(,)?) => {
        if $crate::__private::not($cond) {
            return $crate::__private::Err($crate::Error::msg(
                $crate::__private::concat!("Condition failed: `", $crate::__private::stringify!($cond), "`")
            ));
        }
    };
    ($cond:expr, $msg:literal $(,)?) => {
        if $crate::__private::not($cond) {
            return $crate::__private::Err($crate::__anyhow!($msg));
        }
    };
    ($cond:expr, $err:expr $(,)?) => {
        if $crate::__private::not($cond) {
            return $crate::__private::Err($crate::__anyhow!($err));
        }
    };
    ($cond:expr, $fmt:expr, $($arg:tt)*) => {
        if $crate::__private::not($cond) {
            return $crate::__private::Err($crate::__anyhow!($fmt, $($arg)*));
        }
    };
}
