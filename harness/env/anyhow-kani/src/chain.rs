use self::ChainState::*;
use crate::StdError;

#[cfg(any(feature = "std", not(anyhow_no_core_error)))]
use alloc::vec::{self, Vec};

#[cfg(any(feature = "std", not(anyhow_no_core_error)))]
pub(crate) use crate::Chain;

#[cfg(all(not(feature = "std"), anyhow_no_core_error))]
pub(crate) struct Chain<'a> {
    state: ChainState<'a>,
}

#[derive(Clone)]
pub(crate) enum ChainState<'a> {
    Linked {
        next: Option<&'a (dyn StdError + 'static)>,
    },
    #[cfg(any(feature = "std", not(anyhow_no_core_error)))]
    Buffered {
        rest: vec::IntoIter<&'a (dyn StdError + 'static)>,
    },
}

impl<'a> Chain<'a> {
    #[cold]
    pub fn new(head: &'a (dyn StdError + 'static)) -> Self {
        Chain {
            state: ChainState::Linked { next: Some(head) },
        }
    }
}

impl<'a> Iterator for Chain<'a> {
    type Item = &'a (dyn StdError + 'static);

    fn next(&mut self) -> Option<Self::Item> {
        match &mut self.state {
            Linked { next } => {
                let error = (*next)?;
                *next = error.source();
                Some(error)
            }
            #[cfg(any(feature = "std", not(anyhow_no_core_error)))]
            Buffered { rest } => rest.next(),
        }
    }

    fn size_hint(&self) -> (usize, Option<usize>) {
        let len = self.len();
        (len, Some(len))
    }
}

#[cfg(any(feature = "std", not(anyhow_no_core_error)))]
impl DoubleEndedIterator for Chain<'_> {
    fn next_back(&mut self) -> Option<Self::Item> {
        match &mut self.state {
            Linked { mut next } => {
                let mut rest = Vec::new();
                while let Some(cause) = next {
                    next = cause.source();
                    rest.push(cause);
                }
                let mut rest = rest.into_iter();
                let last = rest.next_back();
                self.state = Buffered { rest };
                last
            }
            Buffered { rest } => rest.next_back(),
        }
    }
}

impl ExactSizeIterator for Chain<'_> {
    fn len(&self) -> usize {
        match &self.state {
            Linked { mut next } => {
                let mut len = 0;
                while let Some(cause) = next {
                    next = cause.source();
                    len += 1;
                }
                len
            }
            #[cfg(any(feature = "std", not(anyhow_no_core_error)))]
            Buffered { rest } => rest.len(),
        }
    }
}

#[cfg(any(feature = "std", not(anyhow_no_core_error)))]
impl Default for Chain<'_> {
    fn default() -> Self {
        Chain {
            state: ChainState::Buffered {
                rest: Vec::new().into_iter(),
            },
        }
    }
}
