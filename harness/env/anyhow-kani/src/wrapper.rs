use crate::StdError;
use core::fmt::{self, Debug, Display};

#[cfg(any(feature = "std", not(anyhow_no_core_error)))]
use alloc::boxed::Box;

#[cfg(error_generic_member_access)]
use core::error::Request;

#[repr(transparent)]
pub struct MessageError<M>(pub M);

impl<M> Debug for MessageError<M>
where
    M: Display + Debug,
{
    fn fmt(&self, f: &mut fmt::Formatter) -> fmt::Result {
        Debug::fmt(&self.0, f)
    }
}

impl<M> Display for MessageError<M>
where
    M: Display + Debug,
{
    fn fmt(&self, f: &mut fmt::Formatter) -> fmt::Result {
        Display::fmt(&self.0, f)
    }
}

impl<M> StdError for MessageError<M> where M: Display + Debug + 'static {}

#[repr(transparent)]
pub struct DisplayError<M>(pub M);

impl<M> Debug for DisplayError<M>
where
    M: Display,
{
    fn fmt(&self, f: &mut fmt::Formatter) -> fmt::Result {
        Display::fmt(&self.0, f)
    }
}

impl<M> Display for DisplayError<M>
where
    M: Display,
{
    fn fmt(&self, f: &mut fmt::Formatter) -> fmt::Result {
        Display::fmt(&self.0, f)
    }
}

impl<M> StdError for DisplayError<M> where M: Display + 'static {}

#[cfg(any(feature = "std", not(anyhow_no_core_error)))]
#[repr(transparent)]
pub struct BoxedError(pub Box<dyn StdError + Send + Sync>);

#[cfg(any(feature = "std", not(anyhow_no_core_error)))]
impl Debug for BoxedError {
    fn fmt(&self, f: &mut fmt::Formatter) -> fmt::Result {
        Debug::fmt(&self.0, f)
    }
}

#[cfg(any(feature = "std", not(anyhow_no_core_error)))]
impl Display for BoxedError {
    fn fmt(&self, f: &mut fmt::Formatter) -> fmt::Result {
        Display::fmt(&self.0, f)
    }
}

#[cfg(any(feature = "std", not(anyhow_no_core_error)))]
impl StdError for BoxedError {
    fn source(&self) -> Option<&(dyn StdError + 'static)> {
        self.0.source()
    }

    #[cfg(error_generic_member_access)]
    fn provide<'a>(&'a self, request: &mut Request<'a>) {
        self.0.provide(request);
    }
}
