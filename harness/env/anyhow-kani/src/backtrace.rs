#[cfg(std_backtrace)]
pub(crate) use std::backtrace::{Backtrace, BacktraceStatus};

#[cfg(all(not(std_backtrace), feature = "backtrace"))]
pub(crate) use self::capture::{Backtrace, BacktraceStatus};

#[cfg(not(any(std_backtrace, feature = "backtrace")))]
pub(crate) enum Backtrace {}

#[cfg(std_backtrace)]
macro_rules! impl_backtrace {
    () => {
        std::backtrace::Backtrace
    };
}

#[cfg(all(not(std_backtrace), feature = "backtrace"))]
macro_rules! impl_backtrace {
    () => {
        impl core::fmt::Debug + core::fmt::Display
    };
}

// VERIF (E-CUT): under cfg(kani) no backtrace is captured and the error is not queried for one. On a nightly
// toolchain `backtrace_if_absent!` otherwise goes through `core::error::request_ref(err as &dyn Error)`, whose
// `provide` dispatch over every `dyn Error` implementation in the binary recurses through ErrorImpl<E>::provide and
// makes symbolic execution of any function that builds an anyhow::Error intractable. Capturing a backtrace has no
// functional effect.
#[cfg(all(not(kani), any(std_backtrace, feature = "backtrace")))]
macro_rules! backtrace {
    () => {
        Some(crate::backtrace::Backtrace::capture())
    };
}
#[cfg(all(kani, any(std_backtrace, feature = "backtrace")))]
macro_rules! backtrace {
    () => {
        None
    };
}

#[cfg(not(any(std_backtrace, feature = "backtrace")))]
macro_rules! backtrace {
    () => {
        None
    };
}

#[cfg(all(kani, error_generic_member_access))]
macro_rules! backtrace_if_absent {
    ($err:expr) => {{
        let _ = &$err;
        None
    }};
}
#[cfg(all(not(kani), error_generic_member_access))]
macro_rules! backtrace_if_absent {
    ($err:expr) => {
        match core::error::request_ref::<std::backtrace::Backtrace>($err as &dyn core::error::Error)
        {
            Some(_) => None,
            None => backtrace!(),
        }
    };
}

#[cfg(all(
    any(feature = "std", not(anyhow_no_core_error)),
    not(error_generic_member_access),
    any(std_backtrace, feature = "backtrace")
))]
macro_rules! backtrace_if_absent {
    ($err:expr) => {
        backtrace!()
    };
}

#[cfg(all(
    any(feature = "std", not(anyhow_no_core_error)),
    not(std_backtrace),
    not(feature = "backtrace"),
))]
macro_rules! backtrace_if_absent {
    ($err:expr) => {
        None
    };
}

#[cfg(all(not(std_backtrace), feature = "backtrace"))]
mod capture {
    use alloc::borrow::{Cow, ToOwned as _};
    use alloc::vec::Vec;
    use backtrace::{BacktraceFmt, BytesOrWideString, Frame, PrintFmt, SymbolName};
    use core::cell::UnsafeCell;
    use core::fmt::{self, Debug, Display};
    use core::sync::atomic::{AtomicUsize, Ordering};
    use std::env;
    use std::path::{self, Path, PathBuf};
    use std::sync::Once;

    pub(crate) struct Backtrace {
        inner: Inner,
    }

    pub(crate) enum BacktraceStatus {
        Unsupported,
        Disabled,
        Captured,
    }

    enum Inner {
        Unsupported,
        Disabled,
        Captured(LazilyResolvedCapture),
    }

    struct Capture {
        actual_start: usize,
        resolved: bool,
        frames: Vec<BacktraceFrame>,
    }

    struct BacktraceFrame {
        frame: Frame,
        symbols: Vec<BacktraceSymbol>,
    }

    struct BacktraceSymbol {
        name: Option<Vec<u8>>,
        filename: Option<BytesOrWide>,
        lineno: Option<u32>,
        colno: Option<u32>,
    }

    enum BytesOrWide {
        Bytes(Vec<u8>),
        Wide(Vec<u16>),
    }

    impl Debug for Backtrace {
        fn fmt(&self, fmt: &mut fmt::Formatter) -> fmt::Result {
            let capture = match &self.inner {
                Inner::Unsupported => return fmt.write_str("<unsupported>"),
                Inner::Disabled => return fmt.write_str("<disabled>"),
                Inner::Captured(c) => c.force(),
            };

            let frames = &capture.frames[capture.actual_start..];

            write!(fmt, "Backtrace ")?;

            let mut dbg = fmt.debug_list();

            for frame in frames {
                if frame.frame.ip().is_null() {
                    continue;
                }

                dbg.entries(&frame.symbols);
            }

            dbg.finish()
        }
    }

    impl Debug for BacktraceFrame {
        fn fmt(&self, fmt: &mut fmt::Formatter) -> fmt::Result {
            let mut dbg = fmt.debug_list();
            dbg.entries(&self.symbols);
            dbg.finish()
        }
    }

    impl Debug for BacktraceSymbol {
        fn fmt(&self, fmt: &mut fmt::Formatter) -> fmt::Result {
            write!(fmt, "{{ ")?;

            if let Some(fn_name) = self.name.as_ref().map(|b| SymbolName::new(b)) {
                write!(fmt, "fn: \"{:#}\"", fn_name)?;
            } else {
                write!(fmt, "fn: <unknown>")?;
            }

            if let Some(fname) = self.filename.as_ref() {
                write!(fmt, ", file: \"{:?}\"", fname)?;
            }

            if let Some(line) = self.lineno {
                write!(fmt, ", line: {:?}", line)?;
            }

            write!(fmt, " }}")
        }
    }

    impl Debug for BytesOrWide {
        fn fmt(&self, fmt: &mut fmt::Formatter) -> fmt::Result {
            output_filename(
                fmt,
                match self {
                    BytesOrWide::Bytes(w) => BytesOrWideString::Bytes(w),
                    BytesOrWide::Wide(w) => BytesOrWideString::Wide(w),
                },
                PrintFmt::Short,
                env::current_dir().as_ref().ok(),
            )
        }
    }

    impl Backtrace {
        fn enabled() -> bool {
            static ENABLED: AtomicUsize = AtomicUsize::new(0);
            match ENABLED.load(Ordering::Relaxed) {
                0 => {}
                1 => return false,
                _ => return true,
            }
            let enabled = match env::var_os("RUST_LIB_BACKTRACE") {
                Some(s) => s != "0",
                None => match env::var_os("RUST_BACKTRACE") {
                    Some(s) => s != "0",
                    None => false,
                },
            };
            ENABLED.store(enabled as usize + 1, Ordering::Relaxed);
            enabled
        }

        #[inline(never)] // want to make sure there's a frame here to remove
        pub(crate) fn capture() -> Backtrace {
            if Backtrace::enabled() {
                Backtrace::create(Backtrace::capture as usize)
            } else {
                let inner = Inner::Disabled;
                Backtrace { inner }
            }
        }

        // Capture a backtrace which starts just before the function addressed
        // by `ip`
        fn create(ip: usize) -> Backtrace {
            let mut frames = Vec::new();
            let mut actual_start = None;
            backtrace::trace(|frame| {
                frames.push(BacktraceFrame {
                    frame: frame.clone(),
                    symbols: Vec::new(),
                });
                if frame.symbol_address() as usize == ip && actual_start.is_none() {
                    actual_start = Some(frames.len() + 1);
                }
                true
            });

            // If no frames came out assume that this is an unsupported platform
            // since `backtrace` doesn't provide a way of learning this right
            // now, and this should be a good enough approximation.
            let inner = if frames.is_empty() {
                Inner::Unsupported
            } else {
                Inner::Captured(LazilyResolvedCapture::new(Capture {
                    actual_start: actual_start.unwrap_or(0),
                    frames,
                    resolved: false,
                }))
            };

            Backtrace { inner }
        }

        pub(crate) fn status(&self) -> BacktraceStatus {
            match self.inner {
                Inner::Unsupported => BacktraceStatus::Unsupported,
                Inner::Disabled => BacktraceStatus::Disabled,
                Inner::Captured(_) => BacktraceStatus::Captured,
            }
        }
    }

    impl Display for Backtrace {
        fn fmt(&self, fmt: &mut fmt::Formatter) -> fmt::Result {
            let capture = match &self.inner {
                Inner::Unsupported => return fmt.write_str("unsupported backtrace"),
                Inner::Disabled => return fmt.write_str("disabled backtrace"),
                Inner::Captured(c) => c.force(),
            };

            let full = fmt.alternate();
            let (frames, style) = if full {
                (&capture.frames[..], PrintFmt::Full)
            } else {
                (&capture.frames[capture.actual_start..], PrintFmt::Short)
            };

            // When printing paths we try to strip the cwd if it exists,
            // otherwise we just print the path as-is. Note that we also only do
            // this for the short format, because if it's full we presumably
            // want to print everything.
            let cwd = env::current_dir();
            let mut print_path = move |fmt: &mut fmt::Formatter, path: BytesOrWideString| {
                output_filename(fmt, path, style, cwd.as_ref().ok())
            };

            let mut f = BacktraceFmt::new(fmt, style, &mut print_path);
            f.add_context()?;
            for frame in frames {
                let mut f = f.frame();
                if frame.symbols.is_empty() {
                    f.print_raw(frame.frame.ip(), None, None, None)?;
                } else {
                    for symbol in frame.symbols.iter() {
                        f.print_raw_with_column(
                            frame.frame.ip(),
                            symbol.name.as_ref().map(|b| SymbolName::new(b)),
                            symbol.filename.as_ref().map(|b| match b {
                                BytesOrWide::Bytes(w) => BytesOrWideString::Bytes(w),
                                BytesOrWide::Wide(w) => BytesOrWideString::Wide(w),
                            }),
                            symbol.lineno,
                            symbol.colno,
                        )?;
                    }
                }
            }
            f.finish()?;
            Ok(())
        }
    }

    struct LazilyResolvedCapture {
        sync: Once,
        capture: UnsafeCell<Capture>,
    }

    impl LazilyResolvedCapture {
        fn new(capture: Capture) -> Self {
            LazilyResolvedCapture {
                sync: Once::new(),
                capture: UnsafeCell::new(capture),
            }
        }

        fn force(&self) -> &Capture {
            self.sync.call_once(|| {
                // Safety: This exclusive reference can't overlap with any
                // others. `Once` guarantees callers will block until this
                // closure returns. `Once` also guarantees only a single caller
                // will enter this closure.
                unsafe { &mut *self.capture.get() }.resolve();
            });

            // Safety: This shared reference can't overlap with the exclusive
            // reference above.
            unsafe { &*self.capture.get() }
        }
    }

    // Safety: Access to the inner value is synchronized using a thread-safe
    // `Once`. So long as `Capture` is `Sync`, `LazilyResolvedCapture` is too
    unsafe impl Sync for LazilyResolvedCapture where Capture: Sync {}

    impl Capture {
        fn resolve(&mut self) {
            // If we're already resolved, nothing to do!
            if self.resolved {
                return;
            }
            self.resolved = true;

            for frame in self.frames.iter_mut() {
                let symbols = &mut frame.symbols;
                let frame = &frame.frame;
                backtrace::resolve_frame(frame, |symbol| {
                    symbols.push(BacktraceSymbol {
                        name: symbol.name().map(|m| m.as_bytes().to_vec()),
                        filename: symbol.filename_raw().map(|b| match b {
                            BytesOrWideString::Bytes(b) => BytesOrWide::Bytes(b.to_owned()),
                            BytesOrWideString::Wide(b) => BytesOrWide::Wide(b.to_owned()),
                        }),
                        lineno: symbol.lineno(),
                        colno: symbol.colno(),
                    });
                });
            }
        }
    }

    // Prints the filename of the backtrace frame.
    fn output_filename(
        fmt: &mut fmt::Formatter,
        bows: BytesOrWideString,
        print_fmt: PrintFmt,
        cwd: Option<&PathBuf>,
    ) -> fmt::Result {
        let file: Cow<Path> = match bows {
            #[cfg(unix)]
            BytesOrWideString::Bytes(bytes) => {
                use std::os::unix::ffi::OsStrExt;
                Path::new(std::ffi::OsStr::from_bytes(bytes)).into()
            }
            #[cfg(not(unix))]
            BytesOrWideString::Bytes(bytes) => {
                Path::new(std::str::from_utf8(bytes).unwrap_or("<unknown>")).into()
            }
            #[cfg(windows)]
            BytesOrWideString::Wide(wide) => {
                use std::os::windows::ffi::OsStringExt;
                Cow::Owned(std::ffi::OsString::from_wide(wide).into())
            }
            #[cfg(not(windows))]
            BytesOrWideString::Wide(_wide) => Path::new("<unknown>").into(),
        };
        if print_fmt == PrintFmt::Short && file.is_absolute() {
            if let Some(cwd) = cwd {
                if let Ok(stripped) = file.strip_prefix(&cwd) {
                    if let Some(s) = stripped.to_str() {
                        return write!(fmt, ".{}{}", path::MAIN_SEPARATOR, s);
                    }
                }
            }
        }
        Display::fmt(&file.display(), fmt)
    }
}

fn _assert_send_sync() {
    fn assert<T: Send + Sync>() {}
    assert::<Backtrace>();
}
