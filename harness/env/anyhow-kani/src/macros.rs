/// Return early with an error.
///
/// This macro is equivalent to
/// <code>return Err([anyhow!($args\...)][anyhow!])</code>.
///
/// The surrounding function's or closure's return value is required to be
/// <code>Result&lt;_, [anyhow::Error][crate::Error]&gt;</code>.
///
/// [anyhow!]: crate::anyhow
///
/// # Example
///
/// ```
/// # use anyhow::{bail, Result};
/// #
/// # fn has_permission(user: usize, resource: usize) -> bool {
/// #     true
/// # }
/// #
/// # fn main() -> Result<()> {
/// #     let user = 0;
/// #     let resource = 0;
/// #
/// if !has_permission(user, resource) {
///     bail!("permission denied for accessing {}", resource);
/// }
/// #     Ok(())
/// # }
/// ```
///
/// ```
/// # use anyhow::{bail, Result};
/// # use thiserror::Error;
/// #
/// # const MAX_DEPTH: usize = 1;
/// #
/// #[derive(Error, Debug)]
/// enum ScienceError {
///     #[error("recursion limit exceeded")]
///     RecursionLimitExceeded,
///     # #[error("...")]
///     # More = (stringify! {
///     ...
///     # }, 1).1,
/// }
///
/// # fn main() -> Result<()> {
/// #     let depth = 0;
/// #
/// if depth > MAX_DEPTH {
///     bail!(ScienceError::RecursionLimitExceeded);
/// }
/// #     Ok(())
/// # }
/// ```
#[macro_export]
macro_rules! bail {
    ($msg:literal $(,)?) => {
        return $crate::__private::Err($crate::__anyhow!($msg))
    };
    ($err:expr $(,)?) => {
        return $crate::__private::Err($crate::__anyhow!($err))
    };
    ($fmt:expr, $($arg:tt)*) => {
        return $crate::__private::Err($crate::__anyhow!($fmt, $($arg)*))
    };
}

macro_rules! __ensure {
    ($ensure:item) => {
        /// Return early with an error if a condition is not satisfied.
        ///
        /// This macro is equivalent to
        /// <code>if !$cond { return Err([anyhow!($args\...)][anyhow!]); }</code>.
        ///
        /// The surrounding function's or closure's return value is required to be
        /// <code>Result&lt;_, [anyhow::Error][crate::Error]&gt;</code>.
        ///
        /// Analogously to `assert!`, `ensure!` takes a condition and exits the function
        /// if the condition fails. Unlike `assert!`, `ensure!` returns an `Error`
        /// rather than panicking.
        ///
        /// [anyhow!]: crate::anyhow
        ///
        /// # Example
        ///
        /// ```
        /// # use anyhow::{ensure, Result};
        /// #
        /// # fn main() -> Result<()> {
        /// #     let user = 0;
        /// #
        /// ensure!(user == 0, "only user 0 is allowed");
        /// #     Ok(())
        /// # }
        /// ```
        ///
        /// ```
        /// # use anyhow::{ensure, Result};
        /// # use thiserror::Error;
        /// #
        /// # const MAX_DEPTH: usize = 1;
        /// #
        /// #[derive(Error, Debug)]
        /// enum ScienceError {
        ///     #[error("recursion limit exceeded")]
        ///     RecursionLimitExceeded,
        ///     # #[error("...")]
        ///     # More = (stringify! {
        ///     ...
        ///     # }, 1).1,
        /// }
        ///
        /// # fn main() -> Result<()> {
        /// #     let depth = 0;
        /// #
        /// ensure!(depth <= MAX_DEPTH, ScienceError::RecursionLimitExceeded);
        /// #     Ok(())
        /// # }
        /// ```
        $ensure
    };
}

#[cfg(doc)]
__ensure![
    #[macro_export]
    macro_rules! ensure {
        ($cond:expr $(,)?) => {
            if !$cond {
                return $crate::__private::Err($crate::Error::msg(
                    $crate::__private::concat!("Condition failed: `", $crate::__private::stringify!($cond), "`")
                ));
            }
        };
        ($cond:expr, $msg:literal $(,)?) => {
            if !$cond {
                return $crate::__private::Err($crate::__anyhow!($msg));
            }
        };
        ($cond:expr, $err:expr $(,)?) => {
            if !$cond {
                return $crate::__private::Err($crate::__anyhow!($err));
            }
        };
        ($cond:expr, $fmt:expr, $($arg:tt)*) => {
            if !$cond {
                return $crate::__private::Err($crate::__anyhow!($fmt, $($arg)*));
            }
        };
    }
];

#[cfg(not(doc))]
__ensure![
    #[macro_export]
    macro_rules! ensure {
        ($($tt:tt)*) => {
            $crate::__parse_ensure!(
                /* state */ 0
                /* stack */ ()
                /* bail */ ($($tt)*)
                /* fuel */ (~~~~~~~~~~ ~~~~~~~~~~ ~~~~~~~~~~ ~~~~~~~~~~ ~~~~~~~~~~ ~~~~~~~~~~ ~~~~~~~~~~ ~~~~~~~~~~ ~~~~~~~~~~ ~~~~~~~~~~ ~~~~~~~~~~ ~~~~~~~~~~)
                /* parse */ {()}
                /* dup */ ($($tt)*)
                /* rest */ $($tt)*
            )
        };
    }
];

/// Construct an ad-hoc error from a string or existing non-`anyhow` error
/// value.
///
/// This evaluates to an [`Error`][crate::Error]. It can take either just a
/// string, or a format string with arguments. It also can take any custom type
/// which implements `Debug` and `Display`.
///
/// If called with a single argument whose type implements `std::error::Error`
/// (in addition to `Debug` and `Display`, which are always required), then that
/// Error impl's `source` is preserved as the `source` of the resulting
/// `anyhow::Error`.
///
/// # Example
///
/// ```
/// # type V = ();
/// #
/// use anyhow::{anyhow, Result};
///
/// fn lookup(key: &str) -> Result<V> {
///     if key.len() != 16 {
///         return Err(anyhow!("key length must be 16 characters, got {:?}", key));
///     }
///
///     // ...
///     # Ok(())
/// }
/// ```
#[macro_export]
macro_rules! anyhow {
    ($msg:literal $(,)?) => {
        $crate::__private::must_use({
            let error = $crate::__private::format_err($crate::__private::format_args!($msg));
            error
        })
    };
    ($err:expr $(,)?) => {
        $crate::__private::must_use({
            use $crate::__private::kind::*;
            let error = match $err {
                error => (&error).anyhow_kind().new(error),
            };
            error
        })
    };
    ($fmt:expr, $($arg:tt)*) => {
        $crate::Error::msg($crate::__private::format!($fmt, $($arg)*))
    };
}

// Not public API. This is used in the implementation of some of the other
// macros, in which the must_use call is not needed because the value is known
// to be used.
#[doc(hidden)]
#[macro_export]
macro_rules! __anyhow {
    ($msg:literal $(,)?) => ({
        let error = $crate::__private::format_err($crate::__private::format_args!($msg));
        error
    });
    ($err:expr $(,)?) => ({
        use $crate::__private::kind::*;
        let error = match $err {
            error => (&error).anyhow_kind().new(error),
        };
        error
    });
    ($fmt:expr, $($arg:tt)*) => {
        $crate::Error::msg($crate::__private::format!($fmt, $($arg)*))
    };
}
