// Tagged dispatch mechanism for resolving the behavior of `anyhow!($expr)`.
//
// When anyhow! is given a single expr argument to turn into anyhow::Error, we
// want the resulting Error to pick up the input's implementation of source()
// and backtrace() if it has a std::error::Error impl, otherwise require nothing
// more than Display and Debug.
//
// Expressed in terms of specialization, we want something like:
//
//     trait AnyhowNew {
//         fn new(self) -> Error;
//     }
//
//     impl<T> AnyhowNew for T
//     where
//         T: Display + Debug + Send + Sync + 'static,
//     {
//         default fn new(self) -> Error {
//             /* no std error impl */
//         }
//     }
//
//     impl<T> AnyhowNew for T
//     where
//         T: std::error::Error + Send + Sync + 'static,
//     {
//         fn new(self) -> Error {
//             /* use std error's source() and backtrace() */
//         }
//     }
//
// Since specialization is not stable yet, instead we rely on autoref behavior
// of method resolution to perform tagged dispatch. Here we have two traits
// AdhocKind and TraitKind that both have an anyhow_kind() method. AdhocKind is
// implemented whether or not the caller's type has a std error impl, while
// TraitKind is implemented only when a std error impl does exist. The ambiguity
// is resolved by AdhocKind requiring an extra autoref so that it has lower
// precedence.
//
// The anyhow! macro will set up the call in this form:
//
//     #[allow(unused_imports)]
//     use $crate::__private::{AdhocKind, TraitKind};
//     let error = $msg;
//     (&error).anyhow_kind().new(error)

use crate::Error;
use core::fmt::{Debug, Display};

#[cfg(any(feature = "std", not(anyhow_no_core_error)))]
use crate::StdError;
#[cfg(any(feature = "std", not(anyhow_no_core_error)))]
use alloc::boxed::Box;

pub struct Adhoc;

#[doc(hidden)]
pub trait AdhocKind: Sized {
    #[inline]
    fn anyhow_kind(&self) -> Adhoc {
        Adhoc
    }
}

impl<T> AdhocKind for &T where T: ?Sized + Display + Debug + Send + Sync + 'static {}

impl Adhoc {
    #[cold]
    pub fn new<M>(self, message: M) -> Error
    where
        M: Display + Debug + Send + Sync + 'static,
    {
        Error::construct_from_adhoc(message, backtrace!())
    }
}

pub struct Trait;

#[doc(hidden)]
pub trait TraitKind: Sized {
    #[inline]
    fn anyhow_kind(&self) -> Trait {
        Trait
    }
}

impl<E> TraitKind for E where E: Into<Error> {}

impl Trait {
    #[cold]
    pub fn new<E>(self, error: E) -> Error
    where
        E: Into<Error>,
    {
        error.into()
    }
}

#[cfg(any(feature = "std", not(anyhow_no_core_error)))]
pub struct Boxed;

#[cfg(any(feature = "std", not(anyhow_no_core_error)))]
#[doc(hidden)]
pub trait BoxedKind: Sized {
    #[inline]
    fn anyhow_kind(&self) -> Boxed {
        Boxed
    }
}

#[cfg(any(feature = "std", not(anyhow_no_core_error)))]
impl BoxedKind for Box<dyn StdError + Send + Sync> {}

#[cfg(any(feature = "std", not(anyhow_no_core_error)))]
impl Boxed {
    #[cold]
    pub fn new(self, error: Box<dyn StdError + Send + Sync>) -> Error {
        let backtrace = backtrace_if_absent!(&*error);
        Error::construct_from_boxed(error, backtrace)
    }
}
