use crate::backtrace::Backtrace;
use crate::chain::Chain;
#[cfg(any(feature = "std", not(anyhow_no_core_error), anyhow_no_ptr_addr_of))]
use crate::ptr::Mut;
use crate::ptr::{Own, Ref};
use crate::{Error, StdError};
use alloc::boxed::Box;
use core::any::TypeId;
#[cfg(error_generic_member_access)]
use core::error::{self, Request};
use core::fmt::{self, Debug, Display};
use core::mem::ManuallyDrop;
#[cfg(any(feature = "std", not(anyhow_no_core_error)))]
use core::ops::{Deref, DerefMut};
#[cfg(not(anyhow_no_core_unwind_safe))]
use core::panic::{RefUnwindSafe, UnwindSafe};
#[cfg(not(anyhow_no_ptr_addr_of))]
use core::ptr;
use core::ptr::NonNull;
#[cfg(all(feature = "std", anyhow_no_core_unwind_safe))]
use std::panic::{RefUnwindSafe, UnwindSafe};

impl Error {
    /// Create a new error object from any error type.
    ///
    /// The error type must be threadsafe and `'static`, so that the `Error`
    /// will be as well.
    ///
    /// If the error type does not provide a backtrace, a backtrace will be
    /// created here to ensure that a backtrace exists.
    #[cfg(any(feature = "std", not(anyhow_no_core_error)))]
    #[cold]
    #[must_use]
    pub fn new<E>(error: E) -> Self
    where
        E: StdError + Send + Sync + 'static,
    {
        let backtrace = backtrace_if_absent!(&error);
        Error::construct_from_std(error, backtrace)
    }

    /// Create a new error object from a printable error message.
    ///
    /// If the argument implements std::error::Error, prefer `Error::new`
    /// instead which preserves the underlying error's cause chain and
    /// backtrace. If the argument may or may not implement std::error::Error
    /// now or in the future, use `anyhow!(err)` which handles either way
    /// correctly.
    ///
    /// `Error::msg("...")` is equivalent to `anyhow!("...")` but occasionally
    /// convenient in places where a function is preferable over a macro, such
    /// as iterator or stream combinators:
    ///
    /// ```
    /// # mod ffi {
    /// #     pub struct Input;
    /// #     pub struct Output;
    /// #     pub async fn do_some_work(_: Input) -> Result<Output, &'static str> {
    /// #         unimplemented!()
    /// #     }
    /// # }
    /// #
    /// # use ffi::{Input, Output};
    /// #
    /// use anyhow::{Error, Result};
    /// use futures::stream::{Stream, StreamExt, TryStreamExt};
    ///
    /// async fn demo<S>(stream: S) -> Result<Vec<Output>>
    /// where
    ///     S: Stream<Item = Input>,
    /// {
    ///     stream
    ///         .then(ffi::do_some_work) // returns Result<Output, &str>
    ///         .map_err(Error::msg)
    ///         .try_collect()
    ///         .await
    /// }
    /// ```
    #[cold]
    #[must_use]
    pub fn msg<M>(message: M) -> Self
    where
        M: Display + Debug + Send + Sync + 'static,
    {
        Error::construct_from_adhoc(message, backtrace!())
    }

    /// Construct an error object from a type-erased standard library error.
    ///
    /// This is mostly useful for interop with other error libraries.
    ///
    /// # Example
    ///
    /// Here is a skeleton of a library that provides its own error abstraction.
    /// The pair of `From` impls provide bidirectional support for `?`
    /// conversion between `Report` and `anyhow::Error`.
    ///
    /// ```
    /// use std::error::Error as StdError;
    ///
    /// pub struct Report {/* ... */}
    ///
    /// impl<E> From<E> for Report
    /// where
    ///     E: Into<anyhow::Error>,
    ///     Result<(), E>: anyhow::Context<(), E>,
    /// {
    ///     fn from(error: E) -> Self {
    ///         let anyhow_error: anyhow::Error = error.into();
    ///         let boxed_error: Box<dyn StdError + Send + Sync + 'static> = anyhow_error.into();
    ///         Report::from_boxed(boxed_error)
    ///     }
    /// }
    ///
    /// impl From<Report> for anyhow::Error {
    ///     fn from(report: Report) -> Self {
    ///         let boxed_error: Box<dyn StdError + Send + Sync + 'static> = report.into_boxed();
    ///         anyhow::Error::from_boxed(boxed_error)
    ///     }
    /// }
    ///
    /// impl Report {
    ///     fn from_boxed(boxed_error: Box<dyn StdError + Send + Sync + 'static>) -> Self {
    ///         todo!()
    ///     }
    ///     fn into_boxed(self) -> Box<dyn StdError + Send + Sync + 'static> {
    ///         todo!()
    ///     }
    /// }
    ///
    /// // Example usage: can use `?` in both directions.
    /// fn a() -> anyhow::Result<()> {
    ///     b()?;
    ///     Ok(())
    /// }
    /// fn b() -> Result<(), Report> {
    ///     a()?;
    ///     Ok(())
    /// }
    /// ```
    #[cfg(any(feature = "std", not(anyhow_no_core_error)))]
    #[cold]
    #[must_use]
    pub fn from_boxed(boxed_error: Box<dyn StdError + Send + Sync + 'static>) -> Self {
        let backtrace = backtrace_if_absent!(&*boxed_error);
        Error::construct_from_boxed(boxed_error, backtrace)
    }

    #[cfg(any(feature = "std", not(anyhow_no_core_error)))]
    #[cold]
    pub(crate) fn construct_from_std<E>(error: E, backtrace: Option<Backtrace>) -> Self
    where
        E: StdError + Send + Sync + 'static,
    {
        let vtable = &ErrorVTable {
            object_drop: object_drop::<E>,
            object_ref: object_ref::<E>,
            #[cfg(anyhow_no_ptr_addr_of)]
            object_mut: object_mut::<E>,
            object_boxed: object_boxed::<E>,
            object_downcast: object_downcast::<E>,
            #[cfg(anyhow_no_ptr_addr_of)]
            object_downcast_mut: object_downcast_mut::<E>,
            object_drop_rest: object_drop_front::<E>,
            #[cfg(all(
                not(error_generic_member_access),
                any(std_backtrace, feature = "backtrace")
            ))]
            object_backtrace: no_backtrace,
        };

        // Safety: passing vtable that operates on the right type E.
        unsafe { Error::construct(error, vtable, backtrace) }
    }

    #[cold]
    pub(crate) fn construct_from_adhoc<M>(message: M, backtrace: Option<Backtrace>) -> Self
    where
        M: Display + Debug + Send + Sync + 'static,
    {
        use crate::wrapper::MessageError;
        let error: MessageError<M> = MessageError(message);
        let vtable = &ErrorVTable {
            object_drop: object_drop::<MessageError<M>>,
            object_ref: object_ref::<MessageError<M>>,
            #[cfg(all(any(feature = "std", not(anyhow_no_core_error)), anyhow_no_ptr_addr_of))]
            object_mut: object_mut::<MessageError<M>>,
            object_boxed: object_boxed::<MessageError<M>>,
            object_downcast: object_downcast::<M>,
            #[cfg(anyhow_no_ptr_addr_of)]
            object_downcast_mut: object_downcast_mut::<M>,
            object_drop_rest: object_drop_front::<M>,
            #[cfg(all(
                not(error_generic_member_access),
                any(std_backtrace, feature = "backtrace")
            ))]
            object_backtrace: no_backtrace,
        };

        // Safety: MessageError is repr(transparent) so it is okay for the
        // vtable to allow casting the MessageError<M> to M.
        unsafe { Error::construct(error, vtable, backtrace) }
    }

    #[cold]
    pub(crate) fn construct_from_display<M>(message: M, backtrace: Option<Backtrace>) -> Self
    where
        M: Display + Send + Sync + 'static,
    {
        use crate::wrapper::DisplayError;
        let error: DisplayError<M> = DisplayError(message);
        let vtable = &ErrorVTable {
            object_drop: object_drop::<DisplayError<M>>,
            object_ref: object_ref::<DisplayError<M>>,
            #[cfg(all(any(feature = "std", not(anyhow_no_core_error)), anyhow_no_ptr_addr_of))]
            object_mut: object_mut::<DisplayError<M>>,
            object_boxed: object_boxed::<DisplayError<M>>,
            object_downcast: object_downcast::<M>,
            #[cfg(anyhow_no_ptr_addr_of)]
            object_downcast_mut: object_downcast_mut::<M>,
            object_drop_rest: object_drop_front::<M>,
            #[cfg(all(
                not(error_generic_member_access),
                any(std_backtrace, feature = "backtrace")
            ))]
            object_backtrace: no_backtrace,
        };

        // Safety: DisplayError is repr(transparent) so it is okay for the
        // vtable to allow casting the DisplayError<M> to M.
        unsafe { Error::construct(error, vtable, backtrace) }
    }

    #[cfg(any(feature = "std", not(anyhow_no_core_error)))]
    #[cold]
    pub(crate) fn construct_from_context<C, E>(
        context: C,
        error: E,
        backtrace: Option<Backtrace>,
    ) -> Self
    where
        C: Display + Send + Sync + 'static,
        E: StdError + Send + Sync + 'static,
    {
        let error: ContextError<C, E> = ContextError { context, error };

        let vtable = &ErrorVTable {
            object_drop: object_drop::<ContextError<C, E>>,
            object_ref: object_ref::<ContextError<C, E>>,
            #[cfg(anyhow_no_ptr_addr_of)]
            object_mut: object_mut::<ContextError<C, E>>,
            object_boxed: object_boxed::<ContextError<C, E>>,
            object_downcast: context_downcast::<C, E>,
            #[cfg(anyhow_no_ptr_addr_of)]
            object_downcast_mut: context_downcast_mut::<C, E>,
            object_drop_rest: context_drop_rest::<C, E>,
            #[cfg(all(
                not(error_generic_member_access),
                any(std_backtrace, feature = "backtrace")
            ))]
            object_backtrace: no_backtrace,
        };

        // Safety: passing vtable that operates on the right type.
        unsafe { Error::construct(error, vtable, backtrace) }
    }

    #[cfg(any(feature = "std", not(anyhow_no_core_error)))]
    #[cold]
    pub(crate) fn construct_from_boxed(
        error: Box<dyn StdError + Send + Sync>,
        backtrace: Option<Backtrace>,
    ) -> Self {
        use crate::wrapper::BoxedError;
        let error = BoxedError(error);
        let vtable = &ErrorVTable {
            object_drop: object_drop::<BoxedError>,
            object_ref: object_ref::<BoxedError>,
            #[cfg(anyhow_no_ptr_addr_of)]
            object_mut: object_mut::<BoxedError>,
            object_boxed: object_boxed::<BoxedError>,
            object_downcast: object_downcast::<Box<dyn StdError + Send + Sync>>,
            #[cfg(anyhow_no_ptr_addr_of)]
            object_downcast_mut: object_downcast_mut::<Box<dyn StdError + Send + Sync>>,
            object_drop_rest: object_drop_front::<Box<dyn StdError + Send + Sync>>,
            #[cfg(all(
                not(error_generic_member_access),
                any(std_backtrace, feature = "backtrace")
            ))]
            object_backtrace: no_backtrace,
        };

        // Safety: BoxedError is repr(transparent) so it is okay for the vtable
        // to allow casting to Box<dyn StdError + Send + Sync>.
        unsafe { Error::construct(error, vtable, backtrace) }
    }

    // Takes backtrace as argument rather than capturing it here so that the
    // user sees one fewer layer of wrapping noise in the backtrace.
    //
    // Unsafe because the given vtable must have sensible behavior on the error
    // value of type E.
    #[cold]
    unsafe fn construct<E>(
        error: E,
        vtable: &'static ErrorVTable,
        backtrace: Option<Backtrace>,
    ) -> Self
    where
        E: StdError + Send + Sync + 'static,
    {
        let inner: Box<ErrorImpl<E>> = Box::new(ErrorImpl {
            vtable,
            backtrace,
            _object: error,
        });
        // Erase the concrete type of E from the compile-time type system. This
        // is equivalent to the safe unsize coercion from Box<ErrorImpl<E>> to
        // Box<ErrorImpl<dyn StdError + Send + Sync + 'static>> except that the
        // result is a thin pointer. The necessary behavior for manipulating the
        // underlying ErrorImpl<E> is preserved in the vtable provided by the
        // caller rather than a builtin fat pointer vtable.
        let inner = Own::new(inner).cast::<ErrorImpl>();
        Error { inner }
    }

    /// Wrap the error value with additional context.
    ///
    /// For attaching context to a `Result` as it is propagated, the
    /// [`Context`][crate::Context] extension trait may be more convenient than
    /// this function.
    ///
    /// The primary reason to use `error.context(...)` instead of
    /// `result.context(...)` via the `Context` trait would be if the context
    /// needs to depend on some data held by the underlying error:
    ///
    /// ```
    /// # use std::fmt::{self, Debug, Display};
    /// #
    /// # type T = ();
    /// #
    /// # impl std::error::Error for ParseError {}
    /// # impl Debug for ParseError {
    /// #     fn fmt(&self, formatter: &mut fmt::Formatter) -> fmt::Result {
    /// #         unimplemented!()
    /// #     }
    /// # }
    /// # impl Display for ParseError {
    /// #     fn fmt(&self, formatter: &mut fmt::Formatter) -> fmt::Result {
    /// #         unimplemented!()
    /// #     }
    /// # }
    /// #
    /// use anyhow::Result;
    /// use std::fs::File;
    /// use std::path::Path;
    ///
    /// struct ParseError {
    ///     line: usize,
    ///     column: usize,
    /// }
    ///
    /// fn parse_impl(file: File) -> Result<T, ParseError> {
    ///     # const IGNORE: &str = stringify! {
    ///     ...
    ///     # };
    ///     # unimplemented!()
    /// }
    ///
    /// pub fn parse(path: impl AsRef<Path>) -> Result<T> {
    ///     let file = File::open(&path)?;
    ///     parse_impl(file).map_err(|error| {
    ///         let context = format!(
    ///             "only the first {} lines of {} are valid",
    ///             error.line, path.as_ref().display(),
    ///         );
    ///         anyhow::Error::new(error).context(context)
    ///     })
    /// }
    /// ```
    #[cold]
    #[must_use]
    pub fn context<C>(self, context: C) -> Self
    where
        C: Display + Send + Sync + 'static,
    {
        let error: ContextError<C, Error> = ContextError {
            context,
            error: self,
        };

        let vtable = &ErrorVTable {
            object_drop: object_drop::<ContextError<C, Error>>,
            object_ref: object_ref::<ContextError<C, Error>>,
            #[cfg(all(any(feature = "std", not(anyhow_no_core_error)), anyhow_no_ptr_addr_of))]
            object_mut: object_mut::<ContextError<C, Error>>,
            object_boxed: object_boxed::<ContextError<C, Error>>,
            object_downcast: context_chain_downcast::<C>,
            #[cfg(anyhow_no_ptr_addr_of)]
            object_downcast_mut: context_chain_downcast_mut::<C>,
            object_drop_rest: context_chain_drop_rest::<C>,
            #[cfg(all(
                not(error_generic_member_access),
                any(std_backtrace, feature = "backtrace")
            ))]
            object_backtrace: context_backtrace::<C>,
        };

        // As the cause is anyhow::Error, we already have a backtrace for it.
        let backtrace = None;

        // Safety: passing vtable that operates on the right type.
        unsafe { Error::construct(error, vtable, backtrace) }
    }

    /// Get the backtrace for this Error.
    ///
    /// In order for the backtrace to be meaningful, one of the two environment
    /// variables `RUST_LIB_BACKTRACE=1` or `RUST_BACKTRACE=1` must be defined
    /// and `RUST_LIB_BACKTRACE` must not be `0`. Backtraces are somewhat
    /// expensive to capture in Rust, so we don't necessarily want to be
    /// capturing them all over the place all the time.
    ///
    /// - If you want panics and errors to both have backtraces, set
    ///   `RUST_BACKTRACE=1`;
    /// - If you want only errors to have backtraces, set
    ///   `RUST_LIB_BACKTRACE=1`;
    /// - If you want only panics to have backtraces, set `RUST_BACKTRACE=1` and
    ///   `RUST_LIB_BACKTRACE=0`.
    ///
    /// # Stability
    ///
    /// Standard library backtraces are only available when using Rust &ge;
    /// 1.65. On older compilers, this function is only available if the crate's
    /// "backtrace" feature is enabled, and will use the `backtrace` crate as
    /// the underlying backtrace implementation. The return type of this
    /// function on old compilers is `&(impl Debug + Display)`.
    ///
    /// ```toml
    /// [dependencies]
    /// anyhow = { version = "1.0", features = ["backtrace"] }
    /// ```
    #[cfg(any(std_backtrace, feature = "backtrace"))]
    pub fn backtrace(&self) -> &impl_backtrace!() {
        unsafe { ErrorImpl::backtrace(self.inner.by_ref()) }
    }

    /// An iterator of the chain of source errors contained by this Error.
    ///
    /// This iterator will visit every error in the cause chain of this error
    /// object, beginning with the error that this error object was created
    /// from.
    ///
    /// # Example
    ///
    /// ```
    /// use anyhow::Error;
    /// use std::io;
    ///
    /// pub fn underlying_io_error_kind(error: &Error) -> Option<io::ErrorKind> {
    ///     for cause in error.chain() {
    ///         if let Some(io_error) = cause.downcast_ref::<io::Error>() {
    ///             return Some(io_error.kind());
    ///         }
    ///     }
    ///     None
    /// }
    /// ```
    #[cfg(any(feature = "std", not(anyhow_no_core_error)))]
    #[cold]
    pub fn chain(&self) -> Chain {
        unsafe { ErrorImpl::chain(self.inner.by_ref()) }
    }

    /// The lowest level cause of this error &mdash; this error's cause's
    /// cause's cause etc.
    ///
    /// The root cause is the last error in the iterator produced by
    /// [`chain()`][Error::chain].
    #[cfg(any(feature = "std", not(anyhow_no_core_error)))]
    #[allow(clippy::double_ended_iterator_last)]
    pub fn root_cause(&self) -> &(dyn StdError + 'static) {
        self.chain().last().unwrap()
    }

    /// Returns true if `E` is the type held by this error object.
    ///
    /// For errors with context, this method returns true if `E` matches the
    /// type of the context `C` **or** the type of the error on which the
    /// context has been attached. For details about the interaction between
    /// context and downcasting, [see here].
    ///
    /// [see here]: crate::Context#effect-on-downcasting
    pub fn is<E>(&self) -> bool
    where
        E: Display + Debug + Send + Sync + 'static,
    {
        self.downcast_ref::<E>().is_some()
    }

    /// Attempt to downcast the error object to a concrete type.
    pub fn downcast<E>(mut self) -> Result<E, Self>
    where
        E: Display + Debug + Send + Sync + 'static,
    {
        let target = TypeId::of::<E>();
        let inner = self.inner.by_mut();
        unsafe {
            // Use vtable to find NonNull<()> which points to a value of type E
            // somewhere inside the data structure.
            #[cfg(not(anyhow_no_ptr_addr_of))]
            let addr = match (vtable(inner.ptr).object_downcast)(inner.by_ref(), target) {
                Some(addr) => addr.by_mut().extend(),
                None => return Err(self),
            };
            #[cfg(anyhow_no_ptr_addr_of)]
            let addr = match (vtable(inner.ptr).object_downcast_mut)(inner, target) {
                Some(addr) => addr.extend(),
                None => return Err(self),
            };

            // Prepare to read E out of the data structure. We'll drop the rest
            // of the data structure separately so that E is not dropped.
            let outer = ManuallyDrop::new(self);

            // Read E from where the vtable found it.
            let error = addr.cast::<E>().read();

            // Drop rest of the data structure outside of E.
            (vtable(outer.inner.ptr).object_drop_rest)(outer.inner, target);

            Ok(error)
        }
    }

    /// Downcast this error object by reference.
    ///
    /// # Example
    ///
    /// ```
    /// # use anyhow::anyhow;
    /// # use std::fmt::{self, Display};
    /// # use std::task::Poll;
    /// #
    /// # #[derive(Debug)]
    /// # enum DataStoreError {
    /// #     Censored(()),
    /// # }
    /// #
    /// # impl Display for DataStoreError {
    /// #     fn fmt(&self, formatter: &mut fmt::Formatter) -> fmt::Result {
    /// #         unimplemented!()
    /// #     }
    /// # }
    /// #
    /// # impl std::error::Error for DataStoreError {}
    /// #
    /// # const REDACTED_CONTENT: () = ();
    /// #
    /// # let error = anyhow!("...");
    /// # let root_cause = &error;
    /// #
    /// # let ret =
    /// // If the error was caused by redaction, then return a tombstone instead
    /// // of the content.
    /// match root_cause.downcast_ref::<DataStoreError>() {
    ///     Some(DataStoreError::Censored(_)) => Ok(Poll::Ready(REDACTED_CONTENT)),
    ///     None => Err(error),
    /// }
    /// # ;
    /// ```
    pub fn downcast_ref<E>(&self) -> Option<&E>
    where
        E: Display + Debug + Send + Sync + 'static,
    {
        let target = TypeId::of::<E>();
        unsafe {
            // Use vtable to find NonNull<()> which points to a value of type E
            // somewhere inside the data structure.
            let addr = (vtable(self.inner.ptr).object_downcast)(self.inner.by_ref(), target)?;
            Some(addr.cast::<E>().deref())
        }
    }

    /// Downcast this error object by mutable reference.
    pub fn downcast_mut<E>(&mut self) -> Option<&mut E>
    where
        E: Display + Debug + Send + Sync + 'static,
    {
        let target = TypeId::of::<E>();
        unsafe {
            // Use vtable to find NonNull<()> which points to a value of type E
            // somewhere inside the data structure.

            #[cfg(not(anyhow_no_ptr_addr_of))]
            let addr =
                (vtable(self.inner.ptr).object_downcast)(self.inner.by_ref(), target)?.by_mut();

            #[cfg(anyhow_no_ptr_addr_of)]
            let addr = (vtable(self.inner.ptr).object_downcast_mut)(self.inner.by_mut(), target)?;

            Some(addr.cast::<E>().deref_mut())
        }
    }

    #[cfg(error_generic_member_access)]
    pub(crate) fn provide<'a>(&'a self, request: &mut Request<'a>) {
        unsafe { ErrorImpl::provide(self.inner.by_ref(), request) }
    }

    // Called by thiserror when you have `#[source] anyhow::Error`. This provide
    // implementation includes the anyhow::Error's Backtrace if any, unlike
    // deref'ing to dyn Error where the provide implementation would include
    // only the original error's Backtrace from before it got wrapped into an
    // anyhow::Error.
    #[cfg(error_generic_member_access)]
    #[doc(hidden)]
    pub fn thiserror_provide<'a>(&'a self, request: &mut Request<'a>) {
        Self::provide(self, request);
    }
}

#[cfg(any(feature = "std", not(anyhow_no_core_error)))]
impl<E> From<E> for Error
where
    E: StdError + Send + Sync + 'static,
{
    #[cold]
    fn from(error: E) -> Self {
        let backtrace = backtrace_if_absent!(&error);
        Error::construct_from_std(error, backtrace)
    }
}

#[cfg(any(feature = "std", not(anyhow_no_core_error)))]
impl Deref for Error {
    type Target = dyn StdError + Send + Sync + 'static;

    fn deref(&self) -> &Self::Target {
        unsafe { ErrorImpl::error(self.inner.by_ref()) }
    }
}

#[cfg(any(feature = "std", not(anyhow_no_core_error)))]
impl DerefMut for Error {
    fn deref_mut(&mut self) -> &mut Self::Target {
        unsafe { ErrorImpl::error_mut(self.inner.by_mut()) }
    }
}

impl Display for Error {
    fn fmt(&self, formatter: &mut fmt::Formatter) -> fmt::Result {
        unsafe { ErrorImpl::display(self.inner.by_ref(), formatter) }
    }
}

impl Debug for Error {
    fn fmt(&self, formatter: &mut fmt::Formatter) -> fmt::Result {
        unsafe { ErrorImpl::debug(self.inner.by_ref(), formatter) }
    }
}

impl Drop for Error {
    fn drop(&mut self) {
        unsafe {
            // Invoke the vtable's drop behavior.
            (vtable(self.inner.ptr).object_drop)(self.inner);
        }
    }
}

struct ErrorVTable {
    object_drop: unsafe fn(Own<ErrorImpl>),
    object_ref: unsafe fn(Ref<ErrorImpl>) -> Ref<dyn StdError + Send + Sync + 'static>,
    #[cfg(all(any(feature = "std", not(anyhow_no_core_error)), anyhow_no_ptr_addr_of))]
    object_mut: unsafe fn(Mut<ErrorImpl>) -> &mut (dyn StdError + Send + Sync + 'static),
    object_boxed: unsafe fn(Own<ErrorImpl>) -> Box<dyn StdError + Send + Sync + 'static>,
    object_downcast: unsafe fn(Ref<ErrorImpl>, TypeId) -> Option<Ref<()>>,
    #[cfg(anyhow_no_ptr_addr_of)]
    object_downcast_mut: unsafe fn(Mut<ErrorImpl>, TypeId) -> Option<Mut<()>>,
    object_drop_rest: unsafe fn(Own<ErrorImpl>, TypeId),
    #[cfg(all(
        not(error_generic_member_access),
        any(std_backtrace, feature = "backtrace")
    ))]
    object_backtrace: unsafe fn(Ref<ErrorImpl>) -> Option<&Backtrace>,
}

// Safety: requires layout of *e to match ErrorImpl<E>.
unsafe fn object_drop<E>(e: Own<ErrorImpl>) {
    // Cast back to ErrorImpl<E> so that the allocator receives the correct
    // Layout to deallocate the Box's memory.
    let unerased_own = e.cast::<ErrorImpl<E>>();
    drop(unsafe { unerased_own.boxed() });
}

// Safety: requires layout of *e to match ErrorImpl<E>.
unsafe fn object_drop_front<E>(e: Own<ErrorImpl>, target: TypeId) {
    // Drop the fields of ErrorImpl other than E as well as the Box allocation,
    // without dropping E itself. This is used by downcast after doing a
    // ptr::read to take ownership of the E.
    let _ = target;
    let unerased_own = e.cast::<ErrorImpl<ManuallyDrop<E>>>();
    drop(unsafe { unerased_own.boxed() });
}

// Safety: requires layout of *e to match ErrorImpl<E>.
unsafe fn object_ref<E>(e: Ref<ErrorImpl>) -> Ref<dyn StdError + Send + Sync + 'static>
where
    E: StdError + Send + Sync + 'static,
{
    // Attach E's native StdError vtable onto a pointer to self._object.

    let unerased_ref = e.cast::<ErrorImpl<E>>();

    #[cfg(not(anyhow_no_ptr_addr_of))]
    return Ref::from_raw(unsafe {
        NonNull::new_unchecked(ptr::addr_of!((*unerased_ref.as_ptr())._object) as *mut E)
    });

    #[cfg(anyhow_no_ptr_addr_of)]
    return Ref::new(unsafe { &unerased_ref.deref()._object });
}

// Safety: requires layout of *e to match ErrorImpl<E>, and for `e` to be derived
// from a `&mut`
#[cfg(all(any(feature = "std", not(anyhow_no_core_error)), anyhow_no_ptr_addr_of))]
unsafe fn object_mut<E>(e: Mut<ErrorImpl>) -> &mut (dyn StdError + Send + Sync + 'static)
where
    E: StdError + Send + Sync + 'static,
{
    // Attach E's native StdError vtable onto a pointer to self._object.
    let unerased_mut = e.cast::<ErrorImpl<E>>();
    unsafe { &mut unerased_mut.deref_mut()._object }
}

// Safety: requires layout of *e to match ErrorImpl<E>.
unsafe fn object_boxed<E>(e: Own<ErrorImpl>) -> Box<dyn StdError + Send + Sync + 'static>
where
    E: StdError + Send + Sync + 'static,
{
    // Attach ErrorImpl<E>'s native StdError vtable. The StdError impl is below.
    let unerased_own = e.cast::<ErrorImpl<E>>();
    unsafe { unerased_own.boxed() }
}

// Safety: requires layout of *e to match ErrorImpl<E>.
unsafe fn object_downcast<E>(e: Ref<ErrorImpl>, target: TypeId) -> Option<Ref<()>>
where
    E: 'static,
{
    if TypeId::of::<E>() == target {
        // Caller is looking for an E pointer and e is ErrorImpl<E>, take a
        // pointer to its E field.

        let unerased_ref = e.cast::<ErrorImpl<E>>();

        #[cfg(not(anyhow_no_ptr_addr_of))]
        return Some(
            Ref::from_raw(unsafe {
                NonNull::new_unchecked(ptr::addr_of!((*unerased_ref.as_ptr())._object) as *mut E)
            })
            .cast::<()>(),
        );

        #[cfg(anyhow_no_ptr_addr_of)]
        return Some(Ref::new(unsafe { &unerased_ref.deref()._object }).cast::<()>());
    } else {
        None
    }
}

// Safety: requires layout of *e to match ErrorImpl<E>.
#[cfg(anyhow_no_ptr_addr_of)]
unsafe fn object_downcast_mut<E>(e: Mut<ErrorImpl>, target: TypeId) -> Option<Mut<()>>
where
    E: 'static,
{
    if TypeId::of::<E>() == target {
        // Caller is looking for an E pointer and e is ErrorImpl<E>, take a
        // pointer to its E field.
        let unerased_mut = e.cast::<ErrorImpl<E>>();
        let unerased = unsafe { unerased_mut.deref_mut() };
        Some(Mut::new(&mut unerased._object).cast::<()>())
    } else {
        None
    }
}

#[cfg(all(
    not(error_generic_member_access),
    any(std_backtrace, feature = "backtrace")
))]
fn no_backtrace(e: Ref<ErrorImpl>) -> Option<&Backtrace> {
    let _ = e;
    None
}

// Safety: requires layout of *e to match ErrorImpl<ContextError<C, E>>.
#[cfg(any(feature = "std", not(anyhow_no_core_error)))]
unsafe fn context_downcast<C, E>(e: Ref<ErrorImpl>, target: TypeId) -> Option<Ref<()>>
where
    C: 'static,
    E: 'static,
{
    if TypeId::of::<C>() == target {
        let unerased_ref = e.cast::<ErrorImpl<ContextError<C, E>>>();
        let unerased = unsafe { unerased_ref.deref() };
        Some(Ref::new(&unerased._object.context).cast::<()>())
    } else if TypeId::of::<E>() == target {
        let unerased_ref = e.cast::<ErrorImpl<ContextError<C, E>>>();
        let unerased = unsafe { unerased_ref.deref() };
        Some(Ref::new(&unerased._object.error).cast::<()>())
    } else {
        None
    }
}

// Safety: requires layout of *e to match ErrorImpl<ContextError<C, E>>.
#[cfg(all(feature = "std", anyhow_no_ptr_addr_of))]
unsafe fn context_downcast_mut<C, E>(e: Mut<ErrorImpl>, target: TypeId) -> Option<Mut<()>>
where
    C: 'static,
    E: 'static,
{
    if TypeId::of::<C>() == target {
        let unerased_mut = e.cast::<ErrorImpl<ContextError<C, E>>>();
        let unerased = unsafe { unerased_mut.deref_mut() };
        Some(Mut::new(&mut unerased._object.context).cast::<()>())
    } else if TypeId::of::<E>() == target {
        let unerased_mut = e.cast::<ErrorImpl<ContextError<C, E>>>();
        let unerased = unsafe { unerased_mut.deref_mut() };
        Some(Mut::new(&mut unerased._object.error).cast::<()>())
    } else {
        None
    }
}

// Safety: requires layout of *e to match ErrorImpl<ContextError<C, E>>.
#[cfg(any(feature = "std", not(anyhow_no_core_error)))]
unsafe fn context_drop_rest<C, E>(e: Own<ErrorImpl>, target: TypeId)
where
    C: 'static,
    E: 'static,
{
    // Called after downcasting by value to either the C or the E and doing a
    // ptr::read to take ownership of that value.
    if TypeId::of::<C>() == target {
        let unerased_own = e.cast::<ErrorImpl<ContextError<ManuallyDrop<C>, E>>>();
        drop(unsafe { unerased_own.boxed() });
    } else {
        let unerased_own = e.cast::<ErrorImpl<ContextError<C, ManuallyDrop<E>>>>();
        drop(unsafe { unerased_own.boxed() });
    }
}

// Safety: requires layout of *e to match ErrorImpl<ContextError<C, Error>>.
unsafe fn context_chain_downcast<C>(e: Ref<ErrorImpl>, target: TypeId) -> Option<Ref<()>>
where
    C: 'static,
{
    let unerased_ref = e.cast::<ErrorImpl<ContextError<C, Error>>>();
    let unerased = unsafe { unerased_ref.deref() };
    if TypeId::of::<C>() == target {
        Some(Ref::new(&unerased._object.context).cast::<()>())
    } else {
        // Recurse down the context chain per the inner error's vtable.
        let source = &unerased._object.error;
        unsafe { (vtable(source.inner.ptr).object_downcast)(source.inner.by_ref(), target) }
    }
}

// Safety: requires layout of *e to match ErrorImpl<ContextError<C, Error>>.
#[cfg(anyhow_no_ptr_addr_of)]
unsafe fn context_chain_downcast_mut<C>(e: Mut<ErrorImpl>, target: TypeId) -> Option<Mut<()>>
where
    C: 'static,
{
    let unerased_mut = e.cast::<ErrorImpl<ContextError<C, Error>>>();
    let unerased = unsafe { unerased_mut.deref_mut() };
    if TypeId::of::<C>() == target {
        Some(Mut::new(&mut unerased._object.context).cast::<()>())
    } else {
        // Recurse down the context chain per the inner error's vtable.
        let source = &mut unerased._object.error;
        unsafe { (vtable(source.inner.ptr).object_downcast_mut)(source.inner.by_mut(), target) }
    }
}

// Safety: requires layout of *e to match ErrorImpl<ContextError<C, Error>>.
unsafe fn context_chain_drop_rest<C>(e: Own<ErrorImpl>, target: TypeId)
where
    C: 'static,
{
    // Called after downcasting by value to either the C or one of the causes
    // and doing a ptr::read to take ownership of that value.
    if TypeId::of::<C>() == target {
        let unerased_own = e.cast::<ErrorImpl<ContextError<ManuallyDrop<C>, Error>>>();
        // Drop the entire rest of the data structure rooted in the next Error.
        drop(unsafe { unerased_own.boxed() });
    } else {
        let unerased_own = e.cast::<ErrorImpl<ContextError<C, ManuallyDrop<Error>>>>();
        let unerased = unsafe { unerased_own.boxed() };
        // Read the Own<ErrorImpl> from the next error.
        let inner = unerased._object.error.inner;
        drop(unerased);
        let vtable = unsafe { vtable(inner.ptr) };
        // Recursively drop the next error using the same target typeid.
        unsafe { (vtable.object_drop_rest)(inner, target) };
    }
}

// Safety: requires layout of *e to match ErrorImpl<ContextError<C, Error>>.
#[cfg(all(
    not(error_generic_member_access),
    any(std_backtrace, feature = "backtrace")
))]
#[allow(clippy::unnecessary_wraps)]
unsafe fn context_backtrace<C>(e: Ref<ErrorImpl>) -> Option<&Backtrace>
where
    C: 'static,
{
    let unerased_ref = e.cast::<ErrorImpl<ContextError<C, Error>>>();
    let unerased = unsafe { unerased_ref.deref() };
    let backtrace = unsafe { ErrorImpl::backtrace(unerased._object.error.inner.by_ref()) };
    Some(backtrace)
}

// NOTE: If working with `ErrorImpl<()>`, references should be avoided in favor
// of raw pointers and `NonNull`.
// repr C to ensure that E remains in the final position.
#[repr(C)]
pub(crate) struct ErrorImpl<E = ()> {
    vtable: &'static ErrorVTable,
    backtrace: Option<Backtrace>,
    // NOTE: Don't use directly. Use only through vtable. Erased type may have
    // different alignment.
    _object: E,
}

// Reads the vtable out of `p`. This is the same as `p.as_ref().vtable`, but
// avoids converting `p` into a reference.
unsafe fn vtable(p: NonNull<ErrorImpl>) -> &'static ErrorVTable {
    // NOTE: This assumes that `ErrorVTable` is the first field of ErrorImpl.
    unsafe { *(p.as_ptr() as *const &'static ErrorVTable) }
}

// repr C to ensure that ContextError<C, E> has the same layout as
// ContextError<ManuallyDrop<C>, E> and ContextError<C, ManuallyDrop<E>>.
#[repr(C)]
pub(crate) struct ContextError<C, E> {
    pub context: C,
    pub error: E,
}

impl<E> ErrorImpl<E> {
    fn erase(&self) -> Ref<ErrorImpl> {
        // Erase the concrete type of E but preserve the vtable in self.vtable
        // for manipulating the resulting thin pointer. This is analogous to an
        // unsize coercion.
        Ref::new(self).cast::<ErrorImpl>()
    }
}

impl ErrorImpl {
    pub(crate) unsafe fn error(this: Ref<Self>) -> &(dyn StdError + Send + Sync + 'static) {
        // Use vtable to attach E's native StdError vtable for the right
        // original type E.
        unsafe { (vtable(this.ptr).object_ref)(this).deref() }
    }

    #[cfg(any(feature = "std", not(anyhow_no_core_error)))]
    pub(crate) unsafe fn error_mut(this: Mut<Self>) -> &mut (dyn StdError + Send + Sync + 'static) {
        // Use vtable to attach E's native StdError vtable for the right
        // original type E.

        #[cfg(not(anyhow_no_ptr_addr_of))]
        return unsafe {
            (vtable(this.ptr).object_ref)(this.by_ref())
                .by_mut()
                .deref_mut()
        };

        #[cfg(anyhow_no_ptr_addr_of)]
        return unsafe { (vtable(this.ptr).object_mut)(this) };
    }

    #[cfg(any(std_backtrace, feature = "backtrace"))]
    pub(crate) unsafe fn backtrace(this: Ref<Self>) -> &Backtrace {
        // This unwrap can only panic if the underlying error's backtrace method
        // is nondeterministic, which would only happen in maliciously
        // constructed code.
        unsafe { this.deref() }
            .backtrace
            .as_ref()
            .or_else(|| {
                #[cfg(error_generic_member_access)]
                return error::request_ref::<Backtrace>(unsafe { Self::error(this) });
                #[cfg(not(error_generic_member_access))]
                return unsafe { (vtable(this.ptr).object_backtrace)(this) };
            })
            .expect("backtrace capture failed")
    }

    #[cfg(error_generic_member_access)]
    unsafe fn provide<'a>(this: Ref<'a, Self>, request: &mut Request<'a>) {
        if let Some(backtrace) = unsafe { &this.deref().backtrace } {
            request.provide_ref(backtrace);
        }
        unsafe { Self::error(this) }.provide(request);
    }

    #[cold]
    pub(crate) unsafe fn chain(this: Ref<Self>) -> Chain {
        Chain::new(unsafe { Self::error(this) })
    }
}

impl<E> StdError for ErrorImpl<E>
where
    E: StdError,
{
    fn source(&self) -> Option<&(dyn StdError + 'static)> {
        unsafe { ErrorImpl::error(self.erase()).source() }
    }

    #[cfg(error_generic_member_access)]
    fn provide<'a>(&'a self, request: &mut Request<'a>) {
        unsafe { ErrorImpl::provide(self.erase(), request) }
    }
}

impl<E> Debug for ErrorImpl<E>
where
    E: Debug,
{
    fn fmt(&self, formatter: &mut fmt::Formatter) -> fmt::Result {
        unsafe { ErrorImpl::debug(self.erase(), formatter) }
    }
}

impl<E> Display for ErrorImpl<E>
where
    E: Display,
{
    fn fmt(&self, formatter: &mut fmt::Formatter) -> fmt::Result {
        unsafe { Display::fmt(ErrorImpl::error(self.erase()), formatter) }
    }
}

impl From<Error> for Box<dyn StdError + Send + Sync + 'static> {
    #[cold]
    fn from(error: Error) -> Self {
        let outer = ManuallyDrop::new(error);
        unsafe {
            // Use vtable to attach ErrorImpl<E>'s native StdError vtable for
            // the right original type E.
            (vtable(outer.inner.ptr).object_boxed)(outer.inner)
        }
    }
}

impl From<Error> for Box<dyn StdError + Send + 'static> {
    fn from(error: Error) -> Self {
        Box::<dyn StdError + Send + Sync>::from(error)
    }
}

impl From<Error> for Box<dyn StdError + 'static> {
    fn from(error: Error) -> Self {
        Box::<dyn StdError + Send + Sync>::from(error)
    }
}

#[cfg(any(feature = "std", not(anyhow_no_core_error)))]
impl AsRef<dyn StdError + Send + Sync> for Error {
    fn as_ref(&self) -> &(dyn StdError + Send + Sync + 'static) {
        &**self
    }
}

#[cfg(any(feature = "std", not(anyhow_no_core_error)))]
impl AsRef<dyn StdError> for Error {
    fn as_ref(&self) -> &(dyn StdError + 'static) {
        &**self
    }
}

#[cfg(any(feature = "std", not(anyhow_no_core_unwind_safe)))]
impl UnwindSafe for Error {}

#[cfg(any(feature = "std", not(anyhow_no_core_unwind_safe)))]
impl RefUnwindSafe for Error {}
