//! [![github]](https://github.com/dtolnay/anyhow)&ensp;[![crates-io]](https://crates.io/crates/anyhow)&ensp;[![docs-rs]](https://docs.rs/anyhow)
//!
//! [github]: https://img.shields.io/badge/github-8da0cb?style=for-the-badge&labelColor=555555&logo=github
//! [crates-io]: https://img.shields.io/badge/crates.io-fc8d62?style=for-the-badge&labelColor=555555&logo=rust
//! [docs-rs]: https://img.shields.io/badge/docs.rs-66c2a5?style=for-the-badge&labelColor=555555&logo=docs.rs
//!
//! <br>
//!
//! This library provides [`anyhow::Error`][Error], a trait object based error
//! type for easy idiomatic error handling in Rust applications.
//!
//! <br>
//!
//! # Details
//!
//! - Use `Result<T, anyhow::Error>`, or equivalently `anyhow::Result<T>`, as
//!   the return type of any fallible function.
//!
//!   Within the function, use `?` to easily propagate any error that implements
//!   the [`std::error::Error`] trait.
//!
//!   ```
//!   # pub trait Deserialize {}
//!   #
//!   # mod serde_json {
//!   #     use super::Deserialize;
//!   #     use std::io;
//!   #
//!   #     pub fn from_str<T: Deserialize>(json: &str) -> io::Result<T> {
//!   #         unimplemented!()
//!   #     }
//!   # }
//!   #
//!   # struct ClusterMap;
//!   #
//!   # impl Deserialize for ClusterMap {}
//!   #
//!   use anyhow::Result;
//!
//!   fn get_cluster_info() -> Result<ClusterMap> {
//!       let config = std::fs::read_to_string("cluster.json")?;
//!       let map: ClusterMap = serde_json::from_str(&config)?;
//!       Ok(map)
//!   }
//!   #
//!   # fn main() {}
//!   ```
//!
//! - Attach context to help the person troubleshooting the error understand
//!   where things went wrong. A low-level error like "No such file or
//!   directory" can be annoying to debug without more context about what higher
//!   level step the application was in the middle of.
//!
//!   ```
//!   # struct It;
//!   #
//!   # impl It {
//!   #     fn detach(&self) -> Result<()> {
//!   #         unimplemented!()
//!   #     }
//!   # }
//!   #
//!   use anyhow::{Context, Result};
//!
//!   fn main() -> Result<()> {
//!       # return Ok(());
//!       #
//!       # const _: &str = stringify! {
//!       ...
//!       # };
//!       #
//!       # let it = It;
//!       # let path = "./path/to/instrs.json";
//!       #
//!       it.detach().context("Failed to detach the important thing")?;
//!
//!       let content = std::fs::read(path)
//!           .with_context(|| format!("Failed to read instrs from {}", path))?;
//!       #
//!       # const _: &str = stringify! {
//!       ...
//!       # };
//!       #
//!       # Ok(())
//!   }
//!   ```
//!
//!   ```console
//!   Error: Failed to read instrs from ./path/to/instrs.json
//!
//!   Caused by:
//!       No such file or directory (os error 2)
//!   ```
//!
//! - Downcasting is supported and can be by value, by shared reference, or by
//!   mutable reference as needed.
//!
//!   ```
//!   # use anyhow::anyhow;
//!   # use std::fmt::{self, Display};
//!   # use std::task::Poll;
//!   #
//!   # #[derive(Debug)]
//!   # enum DataStoreError {
//!   #     Censored(()),
//!   # }
//!   #
//!   # impl Display for DataStoreError {
//!   #     fn fmt(&self, formatter: &mut fmt::Formatter) -> fmt::Result {
//!   #         unimplemented!()
//!   #     }
//!   # }
//!   #
//!   # impl std::error::Error for DataStoreError {}
//!   #
//!   # const REDACTED_CONTENT: () = ();
//!   #
//!   # let error = anyhow!("...");
//!   # let root_cause = &error;
//!   #
//!   # let ret =
//!   // If the error was caused by redaction, then return a
//!   // tombstone instead of the content.
//!   match root_cause.downcast_ref::<DataStoreError>() {
//!       Some(DataStoreError::Censored(_)) => Ok(Poll::Ready(REDACTED_CONTENT)),
//!       None => Err(error),
//!   }
//!   # ;
//!   ```
//!
//! - If using Rust &ge; 1.65, a backtrace is captured and printed with the
//!   error if the underlying error type does not already provide its own. In
//!   order to see backtraces, they must be enabled through the environment
//!   variables described in [`std::backtrace`]:
//!
//!   - If you want panics and errors to both have backtraces, set
//!     `RUST_BACKTRACE=1`;
//!   - If you want only errors to have backtraces, set `RUST_LIB_BACKTRACE=1`;
//!   - If you want only panics to have backtraces, set `RUST_BACKTRACE=1` and
//!     `RUST_LIB_BACKTRACE=0`.
//!
//!   [`std::backtrace`]: std::backtrace#environment-variables
//!
//! - Anyhow works with any error type that has an impl of `std::error::Error`,
//!   including ones defined in your crate. We do not bundle a `derive(Error)`
//!   macro but you can write the impls yourself or use a standalone macro like
//!   [thiserror].
//!
//!   [thiserror]: https://github.com/dtolnay/thiserror
//!
//!   ```
//!   use thiserror::Error;
//!
//!   #[derive(Error, Debug)]
//!   pub enum FormatError {
//!       #[error("Invalid header (expected {expected:?}, got {found:?})")]
//!       InvalidHeader {
//!           expected: String,
//!           found: String,
//!       },
//!       #[error("Missing attribute: {0}")]
//!       MissingAttribute(String),
//!   }
//!   ```
//!
//! - One-off error messages can be constructed using the `anyhow!` macro, which
//!   supports string interpolation and produces an `anyhow::Error`.
//!
//!   ```
//!   # use anyhow::{anyhow, Result};
//!   #
//!   # fn demo() -> Result<()> {
//!   #     let missing = "...";
//!   return Err(anyhow!("Missing attribute: {}", missing));
//!   #     Ok(())
//!   # }
//!   ```
//!
//!   A `bail!` macro is provided as a shorthand for the same early return.
//!
//!   ```
//!   # use anyhow::{bail, Result};
//!   #
//!   # fn demo() -> Result<()> {
//!   #     let missing = "...";
//!   bail!("Missing attribute: {}", missing);
//!   #     Ok(())
//!   # }
//!   ```
//!
//! <br>
//!
//! # No-std support
//!
//! In no_std mode, almost all of the same API is available and works the same
//! way. To depend on Anyhow in no_std mode, disable our default enabled "std"
//! feature in Cargo.toml. A global allocator is required.
//!
//! ```toml
//! [dependencies]
//! anyhow = { version = "1.0", default-features = false }
//! ```
//!
//! With versions of Rust older than 1.81, no_std mode may require an additional
//! `.map_err(Error::msg)` when working with a non-Anyhow error type inside a
//! function that returns Anyhow's error type, as the trait that `?`-based error
//! conversions are defined by is only available in std in those old versions.

#![doc(html_root_url = "https://docs.rs/anyhow/1.0.96")]
#![cfg_attr(error_generic_member_access, feature(error_generic_member_access))]
#![no_std]
#![deny(dead_code, unused_imports, unused_mut)]
#![cfg_attr(
    not(anyhow_no_unsafe_op_in_unsafe_fn_lint),
    deny(unsafe_op_in_unsafe_fn)
)]
#![cfg_attr(anyhow_no_unsafe_op_in_unsafe_fn_lint, allow(unused_unsafe))]
#![allow(
    clippy::doc_markdown,
    clippy::enum_glob_use,
    clippy::explicit_auto_deref,
    clippy::extra_unused_type_parameters,
    clippy::incompatible_msrv,
    clippy::let_underscore_untyped,
    clippy::missing_errors_doc,
    clippy::missing_panics_doc,
    clippy::module_name_repetitions,
    clippy::must_use_candidate,
    clippy::needless_doctest_main,
    clippy::needless_lifetimes,
    clippy::new_ret_no_self,
    clippy::redundant_else,
    clippy::return_self_not_must_use,
    clippy::struct_field_names,
    clippy::unused_self,
    clippy::used_underscore_binding,
    clippy::wildcard_imports,
    clippy::wrong_self_convention
)]

#[cfg(all(
    anyhow_nightly_testing,
    feature = "std",
    not(error_generic_member_access)
))]
compile_error!("Build script probe failed to compile.");

extern crate alloc;

#[cfg(feature = "std")]
extern crate std;

#[macro_use]
mod backtrace;
mod chain;
mod context;
mod ensure;
mod error;
mod fmt;
mod kind;
mod macros;
mod ptr;
mod wrapper;

use crate::error::ErrorImpl;
use crate::ptr::Own;
use core::fmt::Display;

#[cfg(all(not(feature = "std"), anyhow_no_core_error))]
use core::fmt::Debug;

#[cfg(feature = "std")]
use std::error::Error as StdError;

#[cfg(not(any(feature = "std", anyhow_no_core_error)))]
use core::error::Error as StdError;

#[cfg(all(not(feature = "std"), anyhow_no_core_error))]
trait StdError: Debug + Display {
    fn source(&self) -> Option<&(dyn StdError + 'static)> {
        None
    }
}

#[doc(no_inline)]
pub use anyhow as format_err;

/// The `Error` type, a wrapper around a dynamic error type.
///
/// `Error` works a lot like `Box<dyn std::error::Error>`, but with these
/// differences:
///
/// - `Error` requires that the error is `Send`, `Sync`, and `'static`.
/// - `Error` guarantees that a backtrace is available, even if the underlying
///   error type does not provide one.
/// - `Error` is represented as a narrow pointer &mdash; exactly one word in
///   size instead of two.
///
/// <br>
///
/// # Display representations
///
/// When you print an error object using "{}" or to_string(), only the outermost
/// underlying error or context is printed, not any of the lower level causes.
/// This is exactly as if you had called the Display impl of the error from
/// which you constructed your anyhow::Error.
///
/// ```console
/// Failed to read instrs from ./path/to/instrs.json
/// ```
///
/// To print causes as well using anyhow's default formatting of causes, use the
/// alternate selector "{:#}".
///
/// ```console
/// Failed to read instrs from ./path/to/instrs.json: No such file or directory (os error 2)
/// ```
///
/// The Debug format "{:?}" includes your backtrace if one was captured. Note
/// that this is the representation you get by default if you return an error
/// from `fn main` instead of printing it explicitly yourself.
///
/// ```console
/// Error: Failed to read instrs from ./path/to/instrs.json
///
/// Caused by:
///     No such file or directory (os error 2)
/// ```
///
/// and if there is a backtrace available:
///
/// ```console
/// Error: Failed to read instrs from ./path/to/instrs.json
///
/// Caused by:
///     No such file or directory (os error 2)
///
/// Stack backtrace:
///    0: <E as anyhow::context::ext::StdError>::ext_context
///              at /git/anyhow/src/backtrace.rs:26
///    1: core::result::Result<T,E>::map_err
///              at /git/rustc/src/libcore/result.rs:596
///    2: anyhow::context::<impl anyhow::Context<T,E> for core::result::Result<T,E>>::with_context
///              at /git/anyhow/src/context.rs:58
///    3: testing::main
///              at src/main.rs:5
///    4: std::rt::lang_start
///              at /git/rustc/src/libstd/rt.rs:61
///    5: main
///    6: __libc_start_main
///    7: _start
/// ```
///
/// To see a conventional struct-style Debug representation, use "{:#?}".
///
/// ```console
/// Error {
///     context: "Failed to read instrs from ./path/to/instrs.json",
///     source: Os {
///         code: 2,
///         kind: NotFound,
///         message: "No such file or directory",
///     },
/// }
/// ```
///
/// If none of the built-in representations are appropriate and you would prefer
/// to render the error and its cause chain yourself, it can be done something
/// like this:
///
/// ```
/// use anyhow::{Context, Result};
///
/// fn main() {
///     if let Err(err) = try_main() {
///         eprintln!("ERROR: {}", err);
///         err.chain().skip(1).for_each(|cause| eprintln!("because: {}", cause));
///         std::process::exit(1);
///     }
/// }
///
/// fn try_main() -> Result<()> {
///     # const IGNORE: &str = stringify! {
///     ...
///     # };
///     # Ok(())
/// }
/// ```
#[repr(transparent)]
pub struct Error {
    inner: Own<ErrorImpl>,
}

/// Iterator of a chain of source errors.
///
/// This type is the iterator returned by [`Error::chain`].
///
/// # Example
///
/// ```
/// use anyhow::Error;
/// use std::io;
///
/// pub fn underlying_io_error_kind(error: &Error) -> Option<io::ErrorKind> {
///     for cause in error.chain() {
///         if let Some(io_error) = cause.downcast_ref::<io::Error>() {
///             return Some(io_error.kind());
///         }
///     }
///     None
/// }
/// ```
#[cfg(any(feature = "std", not(anyhow_no_core_error)))]
#[derive(Clone)]
pub struct Chain<'a> {
    state: crate::chain::ChainState<'a>,
}

/// `Result<T, Error>`
///
/// This is a reasonable return type to use throughout your application but also
/// for `fn main`; if you do, failures will be printed along with any
/// [context][Context] and a backtrace if one was captured.
///
/// `anyhow::Result` may be used with one *or* two type parameters.
///
/// ```rust
/// use anyhow::Result;
///
/// # const IGNORE: &str = stringify! {
/// fn demo1() -> Result<T> {...}
///            // ^ equivalent to std::result::Result<T, anyhow::Error>
///
/// fn demo2() -> Result<T, OtherError> {...}
///            // ^ equivalent to std::result::Result<T, OtherError>
/// # };
/// ```
///
/// # Example
///
/// ```
/// # pub trait Deserialize {}
/// #
/// # mod serde_json {
/// #     use super::Deserialize;
/// #     use std::io;
/// #
/// #     pub fn from_str<T: Deserialize>(json: &str) -> io::Result<T> {
/// #         unimplemented!()
/// #     }
/// # }
/// #
/// # #[derive(Debug)]
/// # struct ClusterMap;
/// #
/// # impl Deserialize for ClusterMap {}
/// #
/// use anyhow::Result;
///
/// fn main() -> Result<()> {
///     # return Ok(());
///     let config = std::fs::read_to_string("cluster.json")?;
///     let map: ClusterMap = serde_json::from_str(&config)?;
///     println!("cluster info: {:#?}", map);
///     Ok(())
/// }
/// ```
pub type Result<T, E = Error> = core::result::Result<T, E>;

/// Provides the `context` method for `Result`.
///
/// This trait is sealed and cannot be implemented for types outside of
/// `anyhow`.
///
/// <br>
///
/// # Example
///
/// ```
/// use anyhow::{Context, Result};
/// use std::fs;
/// use std::path::PathBuf;
///
/// pub struct ImportantThing {
///     path: PathBuf,
/// }
///
/// impl ImportantThing {
///     # const IGNORE: &'static str = stringify! {
///     pub fn detach(&mut self) -> Result<()> {...}
///     # };
///     # fn detach(&mut self) -> Result<()> {
///     #     unimplemented!()
///     # }
/// }
///
/// pub fn do_it(mut it: ImportantThing) -> Result<Vec<u8>> {
///     it.detach().context("Failed to detach the important thing")?;
///
///     let path = &it.path;
///     let content = fs::read(path)
///         .with_context(|| format!("Failed to read instrs from {}", path.display()))?;
///
///     Ok(content)
/// }
/// ```
///
/// When printed, the outermost context would be printed first and the lower
/// level underlying causes would be enumerated below.
///
/// ```console
/// Error: Failed to read instrs from ./path/to/instrs.json
///
/// Caused by:
///     No such file or directory (os error 2)
/// ```
///
/// Refer to the [Display representations] documentation for other forms in
/// which this context chain can be rendered.
///
/// [Display representations]: Error#display-representations
///
/// <br>
///
/// # Effect on downcasting
///
/// After attaching context of type `C` onto an error of type `E`, the resulting
/// `anyhow::Error` may be downcast to `C` **or** to `E`.
///
/// That is, in codebases that rely on downcasting, Anyhow's context supports
/// both of the following use cases:
///
///   - **Attaching context whose type is insignificant onto errors whose type
///     is used in downcasts.**
///
///     In other error libraries whose context is not designed this way, it can
///     be risky to introduce context to existing code because new context might
///     break existing working downcasts. In Anyhow, any downcast that worked
///     before adding context will continue to work after you add a context, so
///     you should freely add human-readable context to errors wherever it would
///     be helpful.
///
///     ```
///     # use anyhow::bail;
///     # use thiserror::Error;
///     #
///     # #[derive(Error, Debug)]
///     # #[error("???")]
///     # struct SuspiciousError;
///     #
///     # fn helper() -> Result<()> {
///     #     bail!(SuspiciousError);
///     # }
///     #
///     use anyhow::{Context, Result};
///
///     fn do_it() -> Result<()> {
///         helper().context("Failed to complete the work")?;
///         # const IGNORE: &str = stringify! {
///         ...
///         # };
///         # unreachable!()
///     }
///
///     fn main() {
///         let err = do_it().unwrap_err();
///         if let Some(e) = err.downcast_ref::<SuspiciousError>() {
///             // If helper() returned SuspiciousError, this downcast will
///             // correctly succeed even with the context in between.
///             # return;
///         }
///         # panic!("expected downcast to succeed");
///     }
///     ```
///
///   - **Attaching context whose type is used in downcasts onto errors whose
///     type is insignificant.**
///
///     Some codebases prefer to use machine-readable context to categorize
///     lower level errors in a way that will be actionable to higher levels of
///     the application.
///
///     ```
///     # use anyhow::bail;
///     # use thiserror::Error;
///     #
///     # #[derive(Error, Debug)]
///     # #[error("???")]
///     # struct HelperFailed;
///     #
///     # fn helper() -> Result<()> {
///     #     bail!("no such file or directory");
///     # }
///     #
///     use anyhow::{Context, Result};
///
///     fn do_it() -> Result<()> {
///         helper().context(HelperFailed)?;
///         # const IGNORE: &str = stringify! {
///         ...
///         # };
///         # unreachable!()
///     }
///
///     fn main() {
///         let err = do_it().unwrap_err();
///         if let Some(e) = err.downcast_ref::<HelperFailed>() {
///             // If helper failed, this downcast will succeed because
///             // HelperFailed is the context that has been attached to
///             // that error.
///             # return;
///         }
///         # panic!("expected downcast to succeed");
///     }
///     ```
pub trait Context<T, E>: context::private::Sealed {
    /// Wrap the error value with additional context.
    fn context<C>(self, context: C) -> Result<T, Error>
    where
        C: Display + Send + Sync + 'static;

    /// Wrap the error value with additional context that is evaluated lazily
    /// only once an error does occur.
    fn with_context<C, F>(self, f: F) -> Result<T, Error>
    where
        C: Display + Send + Sync + 'static,
        F: FnOnce() -> C;
}

/// Equivalent to `Ok::<_, anyhow::Error>(value)`.
///
/// This simplifies creation of an `anyhow::Result` in places where type
/// inference cannot deduce the `E` type of the result &mdash; without needing
/// to write`Ok::<_, anyhow::Error>(value)`.
///
/// One might think that `anyhow::Result::Ok(value)` would work in such cases
/// but it does not.
///
/// ```console
/// error[E0282]: type annotations needed for `std::result::Result<i32, E>`
///   --> src/main.rs:11:13
///    |
/// 11 |     let _ = anyhow::Result::Ok(1);
///    |         -   ^^^^^^^^^^^^^^^^^^ cannot infer type for type parameter `E` declared on the enum `Result`
///    |         |
///    |         consider giving this pattern the explicit type `std::result::Result<i32, E>`, where the type parameter `E` is specified
/// ```
#[allow(non_snake_case)]
pub fn Ok<T>(value: T) -> Result<T> {
    Result::Ok(value)
}

// Not public API. Referenced by macro-generated code.
#[doc(hidden)]
pub mod __private {
    use self::not::Bool;
    use crate::Error;
    use alloc::fmt;
    use core::fmt::Arguments;

    #[doc(hidden)]
    pub use crate::ensure::{BothDebug, NotBothDebug};
    #[doc(hidden)]
    pub use alloc::format;
    #[doc(hidden)]
    pub use core::result::Result::Err;
    #[doc(hidden)]
    pub use core::{concat, format_args, stringify};

    #[doc(hidden)]
    pub mod kind {
        #[doc(hidden)]
        pub use crate::kind::{AdhocKind, TraitKind};

        #[cfg(any(feature = "std", not(anyhow_no_core_error)))]
        #[doc(hidden)]
        pub use crate::kind::BoxedKind;
    }

    #[doc(hidden)]
    #[inline]
    #[cold]
    pub fn format_err(args: Arguments) -> Error {
        #[cfg(anyhow_no_fmt_arguments_as_str)]
        let fmt_arguments_as_str = None::<&str>;
        #[cfg(not(anyhow_no_fmt_arguments_as_str))]
        let fmt_arguments_as_str = args.as_str();

        if let Some(message) = fmt_arguments_as_str {
            // anyhow!("literal"), can downcast to &'static str
            Error::msg(message)
        } else {
            // anyhow!("interpolate {var}"), can downcast to String
            Error::msg(fmt::format(args))
        }
    }

    #[doc(hidden)]
    #[inline]
    #[cold]
    #[must_use]
    pub fn must_use(error: Error) -> Error {
        error
    }

    #[doc(hidden)]
    #[inline]
    pub fn not(cond: impl Bool) -> bool {
        cond.not()
    }

    mod not {
        #[doc(hidden)]
        pub trait Bool {
            fn not(self) -> bool;
        }

        impl Bool for bool {
            #[inline]
            fn not(self) -> bool {
                !self
            }
        }

        impl Bool for &bool {
            #[inline]
            fn not(self) -> bool {
                !*self
            }
        }
    }
}
