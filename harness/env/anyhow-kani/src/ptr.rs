use alloc::boxed::Box;
use core::marker::PhantomData;
use core::ptr::NonNull;

#[repr(transparent)]
pub struct Own<T>
where
    T: ?Sized,
{
    pub ptr: NonNull<T>,
}

unsafe impl<T> Send for Own<T> where T: ?Sized {}

unsafe impl<T> Sync for Own<T> where T: ?Sized {}

impl<T> Copy for Own<T> where T: ?Sized {}

impl<T> Clone for Own<T>
where
    T: ?Sized,
{
    fn clone(&self) -> Self {
        *self
    }
}

impl<T> Own<T>
where
    T: ?Sized,
{
    pub fn new(ptr: Box<T>) -> Self {
        Own {
            ptr: unsafe { NonNull::new_unchecked(Box::into_raw(ptr)) },
        }
    }

    pub fn cast<U: CastTo>(self) -> Own<U::Target> {
        Own {
            ptr: self.ptr.cast(),
        }
    }

    pub unsafe fn boxed(self) -> Box<T> {
        unsafe { Box::from_raw(self.ptr.as_ptr()) }
    }

    pub fn by_ref(&self) -> Ref<T> {
        Ref {
            ptr: self.ptr,
            lifetime: PhantomData,
        }
    }

    pub fn by_mut(&mut self) -> Mut<T> {
        Mut {
            ptr: self.ptr,
            lifetime: PhantomData,
        }
    }
}

#[repr(transparent)]
pub struct Ref<'a, T>
where
    T: ?Sized,
{
    pub ptr: NonNull<T>,
    lifetime: PhantomData<&'a T>,
}

impl<'a, T> Copy for Ref<'a, T> where T: ?Sized {}

impl<'a, T> Clone for Ref<'a, T>
where
    T: ?Sized,
{
    fn clone(&self) -> Self {
        *self
    }
}

impl<'a, T> Ref<'a, T>
where
    T: ?Sized,
{
    pub fn new(ptr: &'a T) -> Self {
        Ref {
            ptr: NonNull::from(ptr),
            lifetime: PhantomData,
        }
    }

    #[cfg(not(anyhow_no_ptr_addr_of))]
    pub fn from_raw(ptr: NonNull<T>) -> Self {
        Ref {
            ptr,
            lifetime: PhantomData,
        }
    }

    pub fn cast<U: CastTo>(self) -> Ref<'a, U::Target> {
        Ref {
            ptr: self.ptr.cast(),
            lifetime: PhantomData,
        }
    }

    #[cfg(not(anyhow_no_ptr_addr_of))]
    pub fn by_mut(self) -> Mut<'a, T> {
        Mut {
            ptr: self.ptr,
            lifetime: PhantomData,
        }
    }

    #[cfg(not(anyhow_no_ptr_addr_of))]
    pub fn as_ptr(self) -> *const T {
        self.ptr.as_ptr() as *const T
    }

    pub unsafe fn deref(self) -> &'a T {
        unsafe { &*self.ptr.as_ptr() }
    }
}

#[repr(transparent)]
pub struct Mut<'a, T>
where
    T: ?Sized,
{
    pub ptr: NonNull<T>,
    lifetime: PhantomData<&'a mut T>,
}

impl<'a, T> Copy for Mut<'a, T> where T: ?Sized {}

impl<'a, T> Clone for Mut<'a, T>
where
    T: ?Sized,
{
    fn clone(&self) -> Self {
        *self
    }
}

impl<'a, T> Mut<'a, T>
where
    T: ?Sized,
{
    #[cfg(anyhow_no_ptr_addr_of)]
    pub fn new(ptr: &'a mut T) -> Self {
        Mut {
            ptr: NonNull::from(ptr),
            lifetime: PhantomData,
        }
    }

    pub fn cast<U: CastTo>(self) -> Mut<'a, U::Target> {
        Mut {
            ptr: self.ptr.cast(),
            lifetime: PhantomData,
        }
    }

    #[cfg(not(anyhow_no_ptr_addr_of))]
    pub fn by_ref(self) -> Ref<'a, T> {
        Ref {
            ptr: self.ptr,
            lifetime: PhantomData,
        }
    }

    pub fn extend<'b>(self) -> Mut<'b, T> {
        Mut {
            ptr: self.ptr,
            lifetime: PhantomData,
        }
    }

    pub unsafe fn deref_mut(self) -> &'a mut T {
        unsafe { &mut *self.ptr.as_ptr() }
    }
}

impl<'a, T> Mut<'a, T> {
    pub unsafe fn read(self) -> T {
        unsafe { self.ptr.as_ptr().read() }
    }
}

// Force turbofish on all calls of `.cast::<U>()`.
pub trait CastTo {
    type Target;
}

impl<T> CastTo for T {
    type Target = T;
}
