use crate::chain::Chain;
use crate::error::ErrorImpl;
use crate::ptr::Ref;
use core::fmt::{self, Debug, Write};

impl ErrorImpl {
    pub(crate) unsafe fn display(this: Ref<Self>, f: &mut fmt::Formatter) -> fmt::Result {
        write!(f, "{}", unsafe { Self::error(this) })?;

        if f.alternate() {
            let chain = unsafe { Self::chain(this) };
            for cause in chain.skip(1) {
                write!(f, ": {}", cause)?;
            }
        }

        Ok(())
    }

    pub(crate) unsafe fn debug(this: Ref<Self>, f: &mut fmt::Formatter) -> fmt::Result {
        let error = unsafe { Self::error(this) };

        if f.alternate() {
            return Debug::fmt(error, f);
        }

        write!(f, "{}", error)?;

        if let Some(cause) = error.source() {
            write!(f, "\n\nCaused by:")?;
            let multiple = cause.source().is_some();
            for (n, error) in Chain::new(cause).enumerate() {
                writeln!(f)?;
                let mut indented = Indented {
                    inner: f,
                    number: if multiple { Some(n) } else { None },
                    started: false,
                };
                write!(indented, "{}", error)?;
            }
        }

        #[cfg(any(std_backtrace, feature = "backtrace"))]
        {
            use crate::backtrace::BacktraceStatus;
            use alloc::string::ToString;

            let backtrace = unsafe { Self::backtrace(this) };
            if let BacktraceStatus::Captured = backtrace.status() {
                let mut backtrace = backtrace.to_string();
                write!(f, "\n\n")?;
                if backtrace.starts_with("stack backtrace:") {
                    // Capitalize to match "Caused by:"
                    backtrace.replace_range(0..1, "S");
                } else {
                    // "stack backtrace:" prefix was removed in
                    // https://github.com/rust-lang/backtrace-rs/pull/286
                    writeln!(f, "Stack backtrace:")?;
                }
                backtrace.truncate(backtrace.trim_end().len());
                write!(f, "{}", backtrace)?;
            }
        }

        Ok(())
    }
}

struct Indented<'a, D> {
    inner: &'a mut D,
    number: Option<usize>,
    started: bool,
}

impl<T> Write for Indented<'_, T>
where
    T: Write,
{
    fn write_str(&mut self, s: &str) -> fmt::Result {
        for (i, line) in s.split('\n').enumerate() {
            if !self.started {
                self.started = true;
                match self.number {
                    Some(number) => write!(self.inner, "{: >5}: ", number)?,
                    None => self.inner.write_str("    ")?,
                }
            } else if i > 0 {
                self.inner.write_char('\n')?;
                if self.number.is_some() {
                    self.inner.write_str("       ")?;
                } else {
                    self.inner.write_str("    ")?;
                }
            }

            self.inner.write_str(line)?;
        }

        Ok(())
    }
}

#[cfg(test)]
mod tests {
    use super::*;
    use alloc::string::String;

    #[test]
    fn one_digit() {
        let input = "verify\nthis";
        let expected = "    2: verify\n       this";
        let mut output = String::new();

        Indented {
            inner: &mut output,
            number: Some(2),
            started: false,
        }
        .write_str(input)
        .unwrap();

        assert_eq!(expected, output);
    }

    #[test]
    fn two_digits() {
        let input = "verify\nthis";
        let expected = "   12: verify\n       this";
        let mut output = String::new();

        Indented {
            inner: &mut output,
            number: Some(12),
            started: false,
        }
        .write_str(input)
        .unwrap();

        assert_eq!(expected, output);
    }

    #[test]
    fn no_digits() {
        let input = "verify\nthis";
        let expected = "    verify\n    this";
        let mut output = String::new();

        Indented {
            inner: &mut output,
            number: None,
            started: false,
        }
        .write_str(input)
        .unwrap();

        assert_eq!(expected, output);
    }
}
