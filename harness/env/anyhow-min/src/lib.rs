//! Minimal anyhow for verification (see Cargo.toml). API surface = what kestrel-cli uses:
//! `anyhow::Error`, `anyhow::Result`, `anyhow!`, `bail!`, `ensure!`, `Context`, `?` from any std error.
//! Source errors are *forgotten* (not dropped): dropping an `io::Error` / a boxed `dyn Error` makes the model checker
//! walk the drop glue of every error type in the binary; leaking is invisible to every property checked.

use core::fmt;

pub struct Error {
    /// true when built from a source error (`?` / `anyhow!(e)`), false when built from a message
    pub from_source: bool,
}

pub type Result<T, E = Error> = core::result::Result<T, E>;

impl Error {
    pub fn msg<M>(m: M) -> Self {
        core::mem::forget(m);
        Error { from_source: false }
    }
    pub fn new<E>(e: E) -> Self {
        core::mem::forget(e);
        Error { from_source: true }
    }
    pub fn context<C>(self, c: C) -> Self {
        core::mem::forget(c);
        self
    }
}

impl<E> From<E> for Error
where
    E: std::error::Error + Send + Sync + 'static,
{
    fn from(e: E) -> Self {
        core::mem::forget(e);
        Error { from_source: true }
    }
}

impl fmt::Display for Error {
    fn fmt(&self, _f: &mut fmt::Formatter<'_>) -> fmt::Result {
        Ok(())
    }
}
impl fmt::Debug for Error {
    fn fmt(&self, _f: &mut fmt::Formatter<'_>) -> fmt::Result {
        Ok(())
    }
}

pub trait Context<T, E> {
    fn context<C>(self, context: C) -> Result<T, Error>;
    fn with_context<C, F>(self, f: F) -> Result<T, Error>
    where
        F: FnOnce() -> C;
}
impl<T, E> Context<T, E> for core::result::Result<T, E> {
    fn context<C>(self, context: C) -> Result<T, Error> {
        core::mem::forget(context);
        match self {
            Ok(t) => Ok(t),
            Err(e) => {
                core::mem::forget(e);
                Err(Error { from_source: true })
            }
        }
    }
    fn with_context<C, F>(self, f: F) -> Result<T, Error>
    where
        F: FnOnce() -> C,
    {
        match self {
            Ok(t) => Ok(t),
            Err(e) => {
                core::mem::forget(e);
                core::mem::forget(f);
                Err(Error { from_source: true })
            }
        }
    }
}

#[doc(hidden)]
pub mod __private {
    pub fn from_value<T>(v: T) -> crate::Error {
        core::mem::forget(v);
        crate::Error { from_source: true }
    }
    pub fn from_msg() -> crate::Error {
        crate::Error { from_source: false }
    }
    pub fn touch<T: ?Sized>(_v: &T) {}
}

#[macro_export]
macro_rules! anyhow {
    ($msg:literal $(,)?) => {
        $crate::__private::from_msg()
    };
    ($err:expr $(,)?) => {
        $crate::__private::from_value($err)
    };
    ($fmt:expr, $($arg:expr),+ $(,)?) => {{
        $( $crate::__private::touch(&$arg); )+
        $crate::__private::from_msg()
    }};
}

#[macro_export]
macro_rules! bail {
    ($($t:tt)*) => {
        return ::core::result::Result::Err($crate::anyhow!($($t)*))
    };
}

#[macro_export]
macro_rules! ensure {
    ($cond:expr, $($t:tt)*) => {
        if !$cond {
            return ::core::result::Result::Err($crate::anyhow!($($t)*));
        }
    };
}
