use core::fmt::{self, Display};

#[derive(Debug, Copy, Clone, Eq, PartialEq)]
pub enum Error {
    /// The provided output buffer would be too small.
    Overflow,
    /// The input isn't valid for the given encoding.
    InvalidInput,
}

#[cfg(feature = "std")]
impl std::error::Error for Error {}

impl Display for Error {
    fn fmt(&self, f: &mut fmt::Formatter<'_>) -> fmt::Result {
        match self {
            Error::Overflow => write!(f, "Overflow"),
            Error::InvalidInput => write!(f, "Invalid input"),
        }
    }
}
