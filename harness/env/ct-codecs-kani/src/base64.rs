use crate::error::*;
use crate::{Decoder, Encoder};

struct Base64Impl;

#[derive(Copy, Clone, Debug, Eq, PartialEq)]
enum Base64Variant {
    Original = 1,
    OriginalNoPadding = 3,
    UrlSafe = 5,
    UrlSafeNoPadding = 7,
}

enum VariantMask {
    NoPadding = 2,
    UrlSafe = 4,
}

impl Base64Impl {
    #[inline]
    fn _eq(x: u8, y: u8) -> u8 {
        !(((0u16.wrapping_sub((x as u16) ^ (y as u16))) >> 8) as u8)
    }

    #[inline]
    fn _gt(x: u8, y: u8) -> u8 {
        (((y as u16).wrapping_sub(x as u16)) >> 8) as u8
    }

    #[inline]
    fn _ge(x: u8, y: u8) -> u8 {
        !Self::_gt(y, x)
    }

    #[inline]
    fn _lt(x: u8, y: u8) -> u8 {
        Self::_gt(y, x)
    }

    #[inline]
    fn _le(x: u8, y: u8) -> u8 {
        Self::_ge(y, x)
    }

    #[inline]
    fn b64_byte_to_char(x: u8) -> u8 {
        (Self::_lt(x, 26) & (x.wrapping_add(b'A')))
            | (Self::_ge(x, 26) & Self::_lt(x, 52) & (x.wrapping_add(b'a'.wrapping_sub(26))))
            | (Self::_ge(x, 52) & Self::_lt(x, 62) & (x.wrapping_add(b'0'.wrapping_sub(52))))
            | (Self::_eq(x, 62) & b'+')
            | (Self::_eq(x, 63) & b'/')
    }

    #[inline]
    fn b64_char_to_byte(c: u8) -> u8 {
        let x = (Self::_ge(c, b'A') & Self::_le(c, b'Z') & (c.wrapping_sub(b'A')))
            | (Self::_ge(c, b'a') & Self::_le(c, b'z') & (c.wrapping_sub(b'a'.wrapping_sub(26))))
            | (Self::_ge(c, b'0') & Self::_le(c, b'9') & (c.wrapping_sub(b'0'.wrapping_sub(52))))
            | (Self::_eq(c, b'+') & 62)
            | (Self::_eq(c, b'/') & 63);
        x | (Self::_eq(x, 0) & (Self::_eq(c, b'A') ^ 0xff))
    }

    #[inline]
    fn b64_byte_to_urlsafe_char(x: u8) -> u8 {
        (Self::_lt(x, 26) & (x.wrapping_add(b'A')))
            | (Self::_ge(x, 26) & Self::_lt(x, 52) & (x.wrapping_add(b'a'.wrapping_sub(26))))
            | (Self::_ge(x, 52) & Self::_lt(x, 62) & (x.wrapping_add(b'0'.wrapping_sub(52))))
            | (Self::_eq(x, 62) & b'-')
            | (Self::_eq(x, 63) & b'_')
    }

    #[inline]
    fn b64_urlsafe_char_to_byte(c: u8) -> u8 {
        let x = (Self::_ge(c, b'A') & Self::_le(c, b'Z') & (c.wrapping_sub(b'A')))
            | (Self::_ge(c, b'a') & Self::_le(c, b'z') & (c.wrapping_sub(b'a'.wrapping_sub(26))))
            | (Self::_ge(c, b'0') & Self::_le(c, b'9') & (c.wrapping_sub(b'0'.wrapping_sub(52))))
            | (Self::_eq(c, b'-') & 62)
            | (Self::_eq(c, b'_') & 63);
        x | (Self::_eq(x, 0) & (Self::_eq(c, b'A') ^ 0xff))
    }

    #[inline]
    fn encoded_len(bin_len: usize, variant: Base64Variant) -> Result<usize, Error> {
        let nibbles = bin_len / 3;
        let rounded = nibbles * 3;
        let pad = bin_len - rounded;
        Ok(nibbles.checked_mul(4).ok_or(Error::Overflow)?
            + ((pad | (pad >> 1)) & 1)
                * (4 - (!((((variant as usize) & 2) >> 1).wrapping_sub(1)) & (3 - pad)))
            + 1)
    }

    pub fn encode<'t>(
        b64: &'t mut [u8],
        bin: &[u8],
        variant: Base64Variant,
    ) -> Result<&'t [u8], Error> {
        let bin_len = bin.len();
        let b64_maxlen = b64.len();
        let mut acc_len = 0usize;
        let mut b64_pos = 0usize;
        let mut acc = 0u16;

        let nibbles = bin_len / 3;
        let remainder = bin_len - 3 * nibbles;
        let mut b64_len = nibbles * 4;
        if remainder != 0 {
            if (variant as u16 & VariantMask::NoPadding as u16) == 0 {
                b64_len += 4;
            } else {
                b64_len += 2 + (remainder >> 1);
            }
        }
        if b64_maxlen < b64_len {
            return Err(Error::Overflow);
        }
        if (variant as u16 & VariantMask::UrlSafe as u16) != 0 {
            for &v in bin {
                acc = (acc << 8) + v as u16;
                acc_len += 8;
                while acc_len >= 6 {
                    acc_len -= 6;
                    b64[b64_pos] = Self::b64_byte_to_urlsafe_char(((acc >> acc_len) & 0x3f) as u8);
                    b64_pos += 1;
                }
            }
            if acc_len > 0 {
                b64[b64_pos] =
                    Self::b64_byte_to_urlsafe_char(((acc << (6 - acc_len)) & 0x3f) as u8);
                b64_pos += 1;
            }
        } else {
            for &v in bin {
                acc = (acc << 8) + v as u16;
                acc_len += 8;
                while acc_len >= 6 {
                    acc_len -= 6;
                    b64[b64_pos] = Self::b64_byte_to_char(((acc >> acc_len) & 0x3f) as u8);
                    b64_pos += 1;
                }
            }
            if acc_len > 0 {
                b64[b64_pos] = Self::b64_byte_to_char(((acc << (6 - acc_len)) & 0x3f) as u8);
                b64_pos += 1;
            }
        }
        while b64_pos < b64_len {
            b64[b64_pos] = b'=';
            b64_pos += 1
        }
        Ok(&b64[..b64_pos])
    }

    fn skip_padding<'t>(
        b64: &'t [u8],
        mut padding_len: usize,
        ignore: Option<&[u8]>,
    ) -> Result<&'t [u8], Error> {
        let b64_len = b64.len();
        let mut b64_pos = 0usize;
        while padding_len > 0 {
            if b64_pos >= b64_len {
                return Err(Error::InvalidInput);
            }
            let c = b64[b64_pos];
            if c == b'=' {
                padding_len -= 1
            } else {
                match ignore {
                    Some(ignore) if ignore.contains(&c) => {}
                    _ => return Err(Error::InvalidInput),
                }
            }
            b64_pos += 1
        }
        Ok(&b64[b64_pos..])
    }

    pub fn decode<'t>(
        bin: &'t mut [u8],
        b64: &[u8],
        ignore: Option<&[u8]>,
        variant: Base64Variant,
    ) -> Result<&'t [u8], Error> {
        let bin_maxlen = bin.len();
        let is_urlsafe = (variant as u16 & VariantMask::UrlSafe as u16) != 0;
        let mut acc = 0u16;
        let mut acc_len = 0usize;
        let mut bin_pos = 0usize;
        let mut premature_end = None;
        for (b64_pos, &c) in b64.iter().enumerate() {
            let d = if is_urlsafe {
                Self::b64_urlsafe_char_to_byte(c)
            } else {
                Self::b64_char_to_byte(c)
            };
            if d == 0xff {
                match ignore {
                    Some(ignore) if ignore.contains(&c) => continue,
                    _ => {
                        premature_end = Some(b64_pos);
                        break;
                    }
                }
            }
            acc = (acc << 6) + d as u16;
            acc_len += 6;
            if acc_len >= 8 {
                acc_len -= 8;
                if bin_pos >= bin_maxlen {
                    return Err(Error::Overflow);
                }
                bin[bin_pos] = (acc >> acc_len) as u8;
                bin_pos += 1;
            }
        }
        if acc_len > 4 || (acc & ((1u16 << acc_len).wrapping_sub(1))) != 0 {
            return Err(Error::InvalidInput);
        }
        let padding_len = acc_len / 2;
        if let Some(premature_end) = premature_end {
            let remaining = if variant as u16 & VariantMask::NoPadding as u16 == 0 {
                Self::skip_padding(&b64[premature_end..], padding_len, ignore)?
            } else {
                &b64[premature_end..]
            };
            match ignore {
                None => {
                    if !remaining.is_empty() {
                        return Err(Error::InvalidInput);
                    }
                }
                Some(ignore) => {
                    for &c in remaining {
                        if !ignore.contains(&c) {
                            return Err(Error::InvalidInput);
                        }
                    }
                }
            }
        } else if variant as u16 & VariantMask::NoPadding as u16 == 0 && padding_len != 0 {
            return Err(Error::InvalidInput);
        }
        Ok(&bin[..bin_pos])
    }
}

pub struct Base64;
pub struct Base64NoPadding;
pub struct Base64UrlSafe;
pub struct Base64UrlSafeNoPadding;

impl Encoder for Base64 {
    #[inline]
    fn encoded_len(bin_len: usize) -> Result<usize, Error> {
        Base64Impl::encoded_len(bin_len, Base64Variant::Original)
    }

    #[inline]
    fn encode<IN: AsRef<[u8]>>(b64: &mut [u8], bin: IN) -> Result<&[u8], Error> {
        // VERIF (E-B64): under cfg(kani) base64 is a bijection between byte strings and opaque tokens
        #[cfg(kani)]
        return crate::kani_model::encode(b64, bin.as_ref());
        #[cfg(not(kani))]
        Base64Impl::encode(b64, bin.as_ref(), Base64Variant::Original)
    }
}

impl Decoder for Base64 {
    #[inline]
    fn decode<'t, IN: AsRef<[u8]>>(
        bin: &'t mut [u8],
        b64: IN,
        ignore: Option<&[u8]>,
    ) -> Result<&'t [u8], Error> {
        #[cfg(kani)]
        return { let _ = ignore; crate::kani_model::decode(bin, b64.as_ref()) };
        #[cfg(not(kani))]
        Base64Impl::decode(bin, b64.as_ref(), ignore, Base64Variant::Original)
    }
}

impl Encoder for Base64NoPadding {
    #[inline]
    fn encoded_len(bin_len: usize) -> Result<usize, Error> {
        Base64Impl::encoded_len(bin_len, Base64Variant::OriginalNoPadding)
    }

    #[inline]
    fn encode<IN: AsRef<[u8]>>(b64: &mut [u8], bin: IN) -> Result<&[u8], Error> {
        Base64Impl::encode(b64, bin.as_ref(), Base64Variant::OriginalNoPadding)
    }
}

impl Decoder for Base64NoPadding {
    #[inline]
    fn decode<'t, IN: AsRef<[u8]>>(
        bin: &'t mut [u8],
        b64: IN,
        ignore: Option<&[u8]>,
    ) -> Result<&'t [u8], Error> {
        Base64Impl::decode(bin, b64.as_ref(), ignore, Base64Variant::OriginalNoPadding)
    }
}

impl Encoder for Base64UrlSafe {
    #[inline]
    fn encoded_len(bin_len: usize) -> Result<usize, Error> {
        Base64Impl::encoded_len(bin_len, Base64Variant::UrlSafe)
    }

    #[inline]
    fn encode<IN: AsRef<[u8]>>(b64: &mut [u8], bin: IN) -> Result<&[u8], Error> {
        Base64Impl::encode(b64, bin.as_ref(), Base64Variant::UrlSafe)
    }
}

impl Decoder for Base64UrlSafe {
    #[inline]
    fn decode<'t, IN: AsRef<[u8]>>(
        bin: &'t mut [u8],
        b64: IN,
        ignore: Option<&[u8]>,
    ) -> Result<&'t [u8], Error> {
        Base64Impl::decode(bin, b64.as_ref(), ignore, Base64Variant::UrlSafe)
    }
}

impl Encoder for Base64UrlSafeNoPadding {
    #[inline]
    fn encoded_len(bin_len: usize) -> Result<usize, Error> {
        Base64Impl::encoded_len(bin_len, Base64Variant::UrlSafeNoPadding)
    }

    #[inline]
    fn encode<IN: AsRef<[u8]>>(b64: &mut [u8], bin: IN) -> Result<&[u8], Error> {
        Base64Impl::encode(b64, bin.as_ref(), Base64Variant::UrlSafeNoPadding)
    }
}

impl Decoder for Base64UrlSafeNoPadding {
    #[inline]
    fn decode<'t, IN: AsRef<[u8]>>(
        bin: &'t mut [u8],
        b64: IN,
        ignore: Option<&[u8]>,
    ) -> Result<&'t [u8], Error> {
        Base64Impl::decode(bin, b64.as_ref(), ignore, Base64Variant::UrlSafeNoPadding)
    }
}

#[cfg(feature = "std")]
#[test]
fn test_base64() {
    let bin = [1u8, 5, 11, 15, 19, 131, 122];
    let expected = "AQULDxODeg==";
    let b64 = Base64::encode_to_string(bin).unwrap();
    assert_eq!(b64, expected);
    let bin2 = Base64::decode_to_vec(&b64, None).unwrap();
    assert_eq!(bin, &bin2[..]);
}

#[cfg(feature = "std")]
#[test]
fn test_base64_mising_padding() {
    let missing_padding = "AA";
    assert!(Base64::decode_to_vec(missing_padding, None).is_err());
    assert!(Base64NoPadding::decode_to_vec(missing_padding, None).is_ok());
    let missing_padding = "AAA";
    assert!(Base64::decode_to_vec(missing_padding, None).is_err());
    assert!(Base64NoPadding::decode_to_vec(missing_padding, None).is_ok());
}

#[test]
fn test_base64_no_std() {
    let bin = [1u8, 5, 11, 15, 19, 131, 122];
    let expected = [65, 81, 85, 76, 68, 120, 79, 68, 101, 103, 61, 61];
    let mut b64 = [0u8; 12];
    let b64 = Base64::encode(&mut b64, bin).unwrap();
    assert_eq!(b64, expected);
    let mut bin2 = [0u8; 7];
    let bin2 = Base64::decode(&mut bin2, b64, None).unwrap();
    assert_eq!(bin, bin2);
}

#[test]
fn test_base64_invalid_padding() {
    let valid_padding = "AA==";
    assert_eq!(Base64::decode_to_vec(valid_padding, None), Ok(vec![0u8; 1]));
    let invalid_padding = "AA=";
    assert_eq!(
        Base64::decode_to_vec(invalid_padding, None),
        Err(Error::InvalidInput)
    );
}
