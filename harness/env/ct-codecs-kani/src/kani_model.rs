//! VERIF (E-B64): the environment model that replaces Base64 (Original variant) under cfg(kani).
//! Contract: encode/decode are a bijection between byte strings and opaque tokens (record/replay);
//! a string that is not one of our tokens decodes to bytes fixed by the harness (deterministic per run).
#![allow(static_mut_refs)]
use crate::Error;

pub static mut B64_BYTES: [[u8; 84]; 2] = [[0; 84]; 2]; // what was handed to the encoder (token k)
pub static mut B64_LEN: [usize; 2] = [0; 2];
pub static mut B64_N: usize = 0;
pub static mut ATT_ERR: bool = false;
pub static mut ATT_BYTES: [u8; 90] = [0; 90];
pub static mut ATT_LEN: usize = 0;
pub static mut DECODES: usize = 0;

pub fn encode<'t>(b64: &'t mut [u8], bin: &[u8]) -> Result<&'t [u8], Error> {
    unsafe {
        assert!(B64_N < 2 && bin.len() <= 84, "[LIMIT] harness bound: two base64 encodings of <= 84 bytes");
        let k = B64_N;
        B64_BYTES[k][..bin.len()].copy_from_slice(bin);
        B64_LEN[k] = bin.len();
        B64_N += 1;
        // token: 'T', index, then 'A' up to the real base64 length
        let n = (bin.len() + 2) / 3 * 4;
        if b64.len() < n || n < 2 { return Err(Error::Overflow); }
        b64[..n].fill(b'A');
        b64[0] = b'T';
        b64[1] = b'0' + k as u8;
        Ok(&b64[..n])
    }
}

pub fn decode<'t>(bin: &'t mut [u8], e: &[u8]) -> Result<&'t [u8], Error> {
    unsafe {
        DECODES += 1;
        if e.len() >= 2 && e[0] == b'T' && (e[1] == b'0' || e[1] == b'1') {
            let k = (e[1] - b'0') as usize;
            if k < B64_N && e.len() == (B64_LEN[k] + 2) / 3 * 4 {
                let n = B64_LEN[k];
                if n > bin.len() { return Err(Error::Overflow); }
                bin[..n].copy_from_slice(&B64_BYTES[k][..n]);
                return Ok(&bin[..n]);
            }
        }
        if ATT_ERR { return Err(Error::InvalidInput); }
        let n = ATT_LEN;
        if n > bin.len() || n > 90 { return Err(Error::Overflow); }
        bin[..n].copy_from_slice(&ATT_BYTES[..n]);
        Ok(&bin[..n])
    }
}
