//! VERIF (E-B64): the environment model that replaces Base64 (Original variant) under cfg(kani).
//! Contract: encode/decode are a bijection between byte strings and opaque tokens (record/replay);
//! a string that is not one of our tokens decodes to bytes fixed by the harness (deterministic per run).
#![allow(static_mut_refs)]
use crate::Error;

// All model state lives in ONE static whose initial bytes are unique (magic field). Kani 0.68 resolves a constant
// allocation and the initialiser of an upstream crate's static to the same symbol when their bytes are identical: with
// `pub static mut ATT_LEN: usize = 0` in this crate, liballoc's `Cap::ZERO` (8 zero bytes) was compiled to a read of
// ATT_LEN, so that `ATT_LEN = 36` gave every `Vec::new()` of the harness capacity 36 (observed: RawVecInner::new_in reads
// `*(&ATT_LEN as *const Cap)`). A unique initialiser cannot be conflated with any constant.
pub struct Model {
    pub magic: u64,
    pub b64_bytes: [[u8; 84]; 2], // what was handed to the encoder (token k)
    pub b64_len: [usize; 2],
    pub b64_n: usize,
    pub att_err: bool,
    pub att_bytes: [u8; 90],
    pub att_len: usize,
    pub decodes: usize,
}
pub static mut M: Model = Model { magic: 0x4b45_5354_5245_4c31, b64_bytes: [[0; 84]; 2], b64_len: [0; 2], b64_n: 0, att_err: false,
                                  att_bytes: [0; 90], att_len: 0, decodes: 0 };

pub fn encode<'t>(b64: &'t mut [u8], bin: &[u8]) -> Result<&'t [u8], Error> {
    unsafe {
        assert!(M.b64_n < 2 && bin.len() <= 84, "[LIMIT] harness bound: two base64 encodings of <= 84 bytes");
        let k = M.b64_n;
        M.b64_bytes[k][..bin.len()].copy_from_slice(bin);
        M.b64_len[k] = bin.len();
        M.b64_n += 1;
        // token: 'T', index, then 'A' up to the real base64 length
        let n = (bin.len() + 2) / 3 * 4;
        if b64.len() < n || n < 2 { return Err(Error::Overflow); }
        b64[..n].fill(b'A');
        b64[0] = b'T';
        b64[1] = b'0' + k as u8;
        Ok(&b64[..n])
    }
}

pub fn decode<'t>(bin: &'t mut [u8], e: &[u8]) -> Result<&'t [u8], Error> {
    unsafe {
        M.decodes += 1;
        if e.len() >= 2 && e[0] == b'T' && (e[1] == b'0' || e[1] == b'1') {
            let k = (e[1] - b'0') as usize;
            if k < M.b64_n && e.len() == (M.b64_len[k] + 2) / 3 * 4 {
                let n = M.b64_len[k];
                if n > bin.len() { return Err(Error::Overflow); }
                bin[..n].copy_from_slice(&M.b64_bytes[k][..n]);
                return Ok(&bin[..n]);
            }
        }
        if M.att_err { return Err(Error::InvalidInput); }
        let n = M.att_len;
        if n > bin.len() || n > 90 { return Err(Error::Overflow); }
        bin[..n].copy_from_slice(&M.att_bytes[..n]);
        Ok(&bin[..n])
    }
}

