//! Constant-time codecs.

#![cfg_attr(not(feature = "std"), no_std)]
#![cfg_attr(not(kani), forbid(unsafe_code))]

mod base64;
#[cfg(kani)]
pub mod kani_model;
mod error;
mod hex;

pub use base64::*;
pub use error::*;
pub use hex::*;

pub trait Encoder {
    /// Length of `bin_len` bytes after encoding.
    fn encoded_len(bin_len: usize) -> Result<usize, Error>;

    /// Encode `bin` into `encoded`.
    /// The output buffer can be larger than required; the returned slice is
    /// a view of the buffer with the correct length.
    fn encode<IN: AsRef<[u8]>>(encoded: &mut [u8], bin: IN) -> Result<&[u8], Error>;

    /// Encode `bin` into `encoded`, return the result as a `str`.
    /// The output buffer can be larger than required; the returned slice is
    /// a view of the buffer with the correct length.
    fn encode_to_str<IN: AsRef<[u8]>>(encoded: &mut [u8], bin: IN) -> Result<&str, Error> {
        Ok(core::str::from_utf8(Self::encode(encoded, bin)?).unwrap())
    }

    /// Encode `bin` as a `String`.
    #[cfg(feature = "std")]
    fn encode_to_string<IN: AsRef<[u8]>>(bin: IN) -> Result<String, Error> {
        let mut encoded = vec![0u8; Self::encoded_len(bin.as_ref().len())?];
        let encoded_len = Self::encode(&mut encoded, bin)?.len();
        encoded.truncate(encoded_len);
        // VERIF: under cfg(kani) skip UTF-8 validation of the (ASCII) token: std's validation loop over a
        // 112-byte buffer costs minutes of symbolic execution and is not the subject
        #[cfg(kani)]
        return Ok(unsafe { String::from_utf8_unchecked(encoded) });
        #[cfg(not(kani))]
        Ok(String::from_utf8(encoded).unwrap())
    }
}

pub trait Decoder {
    /// Decode `encoded` into `bin`.
    /// The output buffer can be larger than required; the returned slice is
    /// a view of the buffer with the correct length.
    /// `ignore` is an optional set of characters to ignore.
    fn decode<'t, IN: AsRef<[u8]>>(
        bin: &'t mut [u8],
        encoded: IN,
        ignore: Option<&[u8]>,
    ) -> Result<&'t [u8], Error>;

    /// Decode `encoded` into a `Vec<u8>`.
    /// `ignore` is an optional set of characters to ignore.
    #[cfg(feature = "std")]
    fn decode_to_vec<IN: AsRef<[u8]>>(
        encoded: IN,
        ignore: Option<&[u8]>,
    ) -> Result<Vec<u8>, Error> {
        // VERIF (E-B64): under cfg(kani) the token model may return more bytes than a short token is long
        #[cfg(kani)]
        let mut bin = vec![0u8; core::cmp::max(encoded.as_ref().len(), 90)];
        #[cfg(not(kani))]
        let mut bin = vec![0u8; encoded.as_ref().len()];
        let bin_len = Self::decode(&mut bin, encoded, ignore)?.len();
        bin.truncate(bin_len);
        Ok(bin)
    }
}
