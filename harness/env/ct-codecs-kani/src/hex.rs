use crate::error::*;
use crate::{Decoder, Encoder};

pub struct Hex;

impl Encoder for Hex {
    #[inline]
    fn encoded_len(bin_len: usize) -> Result<usize, Error> {
        bin_len.checked_mul(2).ok_or(Error::Overflow)
    }

    fn encode<IN: AsRef<[u8]>>(hex: &mut [u8], bin: IN) -> Result<&[u8], Error> {
        let bin = bin.as_ref();
        let bin_len = bin.len();
        let hex_maxlen = hex.len();
        if hex_maxlen < bin_len.checked_shl(1).ok_or(Error::Overflow)? {
            return Err(Error::Overflow);
        }
        for (i, v) in bin.iter().enumerate() {
            let (b, c) = ((v >> 4) as u16, (v & 0xf) as u16);
            let x = (((87 + c + (((c.wrapping_sub(10)) >> 8) & !38)) as u8) as u16) << 8
                | ((87 + b + (((b.wrapping_sub(10)) >> 8) & !38)) as u8) as u16;
            hex[i * 2] = x as u8;
            hex[i * 2 + 1] = (x >> 8) as u8;
        }
        Ok(&hex[..bin_len * 2])
    }
}

impl Decoder for Hex {
    fn decode<'t, IN: AsRef<[u8]>>(
        bin: &'t mut [u8],
        hex: IN,
        ignore: Option<&[u8]>,
    ) -> Result<&'t [u8], Error> {
        let hex = hex.as_ref();
        let bin_maxlen = bin.len();
        let mut bin_pos = 0;
        let mut state = false;
        let mut c_acc = 0;
        for &c in hex {
            let c_num = c ^ 48;
            let c_num0 = ((c_num as u16).wrapping_sub(10) >> 8) as u8;
            let c_alpha = (c & !32).wrapping_sub(55);
            let c_alpha0 = (((c_alpha as u16).wrapping_sub(10)
                ^ ((c_alpha as u16).wrapping_sub(16)))
                >> 8) as u8;
            if (c_num0 | c_alpha0) == 0 {
                match ignore {
                    Some(ignore) if ignore.contains(&c) => continue,
                    _ => return Err(Error::InvalidInput),
                };
            }
            let c_val = (c_num0 & c_num) | (c_alpha0 & c_alpha);
            if bin_pos >= bin_maxlen {
                return Err(Error::Overflow);
            }
            if !state {
                c_acc = c_val << 4;
            } else {
                bin[bin_pos] = c_acc | c_val;
                bin_pos += 1;
            }
            state = !state;
        }
        if state {
            return Err(Error::InvalidInput);
        }
        Ok(&bin[..bin_pos])
    }
}

#[cfg(feature = "std")]
#[test]
fn test_hex() {
    let bin = [1u8, 5, 11, 15, 19, 131];
    let hex = Hex::encode_to_string(bin).unwrap();
    let expected = "01050b0f1383";
    assert_eq!(hex, expected);
    let bin2 = Hex::decode_to_vec(&hex, None).unwrap();
    assert_eq!(bin, &bin2[..]);
}

#[test]
fn test_hex_no_std() {
    let bin = [1u8, 5, 11, 15, 19, 131];
    let expected = "01050b0f1383";
    let mut hex = [0u8; 12];
    let hex = Hex::encode_to_str(&mut hex, bin).unwrap();
    assert_eq!(&hex, &expected);
    let mut bin2 = [0u8; 6];
    let bin2 = Hex::decode(&mut bin2, hex, None).unwrap();
    assert_eq!(bin, bin2);
}
