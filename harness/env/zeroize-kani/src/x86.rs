//! [`Zeroize`] impls for x86 SIMD registers

use crate::{atomic_fence, volatile_write, Zeroize};

#[cfg(target_arch = "x86")]
use core::arch::x86::*;

#[cfg(target_arch = "x86_64")]
use core::arch::x86_64::*;

macro_rules! impl_zeroize_for_simd_register {
    ($($type:ty),* $(,)?) => {
        $(
            impl Zeroize for $type {
                #[inline]
                fn zeroize(&mut self) {
                    volatile_write(self, unsafe { core::mem::zeroed() });
                    atomic_fence();
                }
            }
        )*
    };
}

impl_zeroize_for_simd_register!(__m128, __m128d, __m128i, __m256, __m256d, __m256i);

// NOTE: MSRV 1.72
#[cfg(feature = "simd")]
impl_zeroize_for_simd_register!(__m512, __m512d, __m512i);
