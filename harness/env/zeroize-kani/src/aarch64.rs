//! [`Zeroize`] impls for ARM64 SIMD registers.

use crate::{atomic_fence, volatile_write, Zeroize};

use core::arch::aarch64::*;

macro_rules! impl_zeroize_for_simd_register {
    ($($type:ty),* $(,)?) => {
        $(
            impl Zeroize for $type {
                #[inline]
                fn zeroize(&mut self) {
                    volatile_write(self, unsafe { core::mem::zeroed() });
                    atomic_fence();
                }
            }
        )+
    };
}

// TODO(tarcieri): other NEON register types?
impl_zeroize_for_simd_register! {
    uint8x8_t,
    uint8x16_t,
    uint16x4_t,
    uint16x8_t,
    uint32x2_t,
    uint32x4_t,
    uint64x1_t,
    uint64x2_t,
}
