#![no_std]
#![cfg_attr(docsrs, feature(doc_auto_cfg))]
#![doc(
    html_logo_url = "https://raw.githubusercontent.com/RustCrypto/media/6ee8e381/logo.svg",
    html_favicon_url = "https://raw.githubusercontent.com/RustCrypto/media/6ee8e381/logo.svg"
)]
#![warn(missing_docs, rust_2018_idioms, unused_qualifications)]

//! Securely zero memory with a simple trait ([`Zeroize`]) built on stable Rust
//! primitives which guarantee the operation will not be "optimized away".
//!
//! ## About
//!
//! [Zeroing memory securely is hard] - compilers optimize for performance, and
//! in doing so they love to "optimize away" unnecessary zeroing calls. There are
//! many documented "tricks" to attempt to avoid these optimizations and ensure
//! that a zeroing routine is performed reliably.
//!
//! This crate isn't about tricks: it uses [`core::ptr::write_volatile`]
//! and [`core::sync::atomic`] memory fences to provide easy-to-use, portable
//! zeroing behavior which works on all of Rust's core number types and slices
//! thereof, implemented in pure Rust with no usage of FFI or assembly.
//!
//! - No insecure fallbacks!
//! - No dependencies!
//! - No FFI or inline assembly! **WASM friendly** (and tested)!
//! - `#![no_std]` i.e. **embedded-friendly**!
//! - No functionality besides securely zeroing memory!
//! - (Optional) Custom derive support for zeroing complex structures
//!
//! ## Minimum Supported Rust Version
//!
//! Requires Rust **1.72** or newer.
//!
//! In the future, we reserve the right to change MSRV (i.e. MSRV is out-of-scope
//! for this crate's SemVer guarantees), however when we do it will be accompanied
//! by a minor version bump.
//!
//! ## Usage
//!
//! ```
//! use zeroize::Zeroize;
//!
//! // Protip: don't embed secrets in your source code.
//! // This is just an example.
//! let mut secret = b"Air shield password: 1,2,3,4,5".to_vec();
//! // [ ... ] open the air shield here
//!
//! // Now that we're done using the secret, zero it out.
//! secret.zeroize();
//! ```
//!
//! The [`Zeroize`] trait is impl'd on all of Rust's core scalar types including
//! integers, floats, `bool`, and `char`.
//!
//! Additionally, it's implemented on slices and `IterMut`s of the above types.
//!
//! When the `alloc` feature is enabled (which it is by default), it's also
//! impl'd for `Vec<T>` for the above types as well as `String`, where it provides
//! [`Vec::clear`] / [`String::clear`]-like behavior (truncating to zero-length)
//! but ensures the backing memory is securely zeroed with some caveats.
//!
//! With the `std` feature enabled (which it is **not** by default), [`Zeroize`]
//! is also implemented for [`CString`]. After calling `zeroize()` on a `CString`,
//! its internal buffer will contain exactly one nul byte. The backing
//! memory is zeroed by converting it to a `Vec<u8>` and back into a `CString`.
//! (NOTE: see "Stack/Heap Zeroing Notes" for important `Vec`/`String`/`CString` details)
//!
//! [`CString`]: https://doc.rust-lang.org/std/ffi/struct.CString.html
//!
//! The [`DefaultIsZeroes`] marker trait can be impl'd on types which also
//! impl [`Default`], which implements [`Zeroize`] by overwriting a value with
//! the default value.
//!
//! ## Custom Derive Support
//!
//! This crate has custom derive support for the `Zeroize` trait,
//! gated under the `zeroize` crate's `zeroize_derive` Cargo feature,
//! which automatically calls `zeroize()` on all members of a struct
//! or tuple struct.
//!
//! Attributes supported for `Zeroize`:
//!
//! On the item level:
//! - `#[zeroize(drop)]`: *deprecated* use `ZeroizeOnDrop` instead
//! - `#[zeroize(bound = "T: MyTrait")]`: this replaces any trait bounds
//!   inferred by zeroize
//!
//! On the field level:
//! - `#[zeroize(skip)]`: skips this field or variant when calling `zeroize()`
//!
//! Attributes supported for `ZeroizeOnDrop`:
//!
//! On the field level:
//! - `#[zeroize(skip)]`: skips this field or variant when calling `zeroize()`
//!
//! Example which derives `Drop`:
//!
//! ```
//! # #[cfg(feature = "zeroize_derive")]
//! # {
//! use zeroize::{Zeroize, ZeroizeOnDrop};
//!
//! // This struct will be zeroized on drop
//! #[derive(Zeroize, ZeroizeOnDrop)]
//! struct MyStruct([u8; 32]);
//! # }
//! ```
//!
//! Example which does not derive `Drop` (useful for e.g. `Copy` types)
//!
//! ```
//! #[cfg(feature = "zeroize_derive")]
//! # {
//! use zeroize::Zeroize;
//!
//! // This struct will *NOT* be zeroized on drop
//! #[derive(Copy, Clone, Zeroize)]
//! struct MyStruct([u8; 32]);
//! # }
//! ```
//!
//! Example which only derives `Drop`:
//!
//! ```
//! # #[cfg(feature = "zeroize_derive")]
//! # {
//! use zeroize::ZeroizeOnDrop;
//!
//! // This struct will be zeroized on drop
//! #[derive(ZeroizeOnDrop)]
//! struct MyStruct([u8; 32]);
//! # }
//! ```
//!
//! ## `Zeroizing<Z>`: wrapper for zeroizing arbitrary values on drop
//!
//! `Zeroizing<Z: Zeroize>` is a generic wrapper type that impls `Deref`
//! and `DerefMut`, allowing access to an inner value of type `Z`, and also
//! impls a `Drop` handler which calls `zeroize()` on its contents:
//!
//! ```
//! use zeroize::Zeroizing;
//!
//! fn use_secret() {
//!     let mut secret = Zeroizing::new([0u8; 5]);
//!
//!     // Set the air shield password
//!     // Protip (again): don't embed secrets in your source code.
//!     secret.copy_from_slice(&[1, 2, 3, 4, 5]);
//!     assert_eq!(secret.as_ref(), &[1, 2, 3, 4, 5]);
//!
//!     // The contents of `secret` will be automatically zeroized on drop
//! }
//!
//! # use_secret()
//! ```
//!
//! ## What guarantees does this crate provide?
//!
//! This crate guarantees the following:
//!
//! 1. The zeroing operation can't be "optimized away" by the compiler.
//! 2. All subsequent reads to memory will see "zeroized" values.
//!
//! LLVM's volatile semantics ensure #1 is true.
//!
//! Additionally, thanks to work by the [Unsafe Code Guidelines Working Group],
//! we can now fairly confidently say #2 is true as well. Previously there were
//! worries that the approach used by this crate (mixing volatile and
//! non-volatile accesses) was undefined behavior due to language contained
//! in the documentation for `write_volatile`, however after some discussion
//! [these remarks have been removed] and the specific usage pattern in this
//! crate is considered to be well-defined.
//!
//! Additionally this crate leverages [`core::sync::atomic::compiler_fence`]
//! with the strictest ordering
//! ([`Ordering::SeqCst`]) as a
//! precaution to help ensure reads are not reordered before memory has been
//! zeroed.
//!
//! All of that said, there is still potential for microarchitectural attacks
//! (ala Spectre/Meltdown) to leak "zeroized" secrets through covert channels.
//! This crate makes no guarantees that zeroized values cannot be leaked
//! through such channels, as they represent flaws in the underlying hardware.
//!
//! ## Stack/Heap Zeroing Notes
//!
//! This crate can be used to zero values from either the stack or the heap.
//!
//! However, be aware several operations in Rust can unintentionally leave
//! copies of data in memory. This includes but is not limited to:
//!
//! - Moves and [`Copy`]
//! - Heap reallocation when using [`Vec`] and [`String`]
//! - Borrowers of a reference making copies of the data
//!
//! [`Pin`][`core::pin::Pin`] can be leveraged in conjunction with this crate
//! to ensure data kept on the stack isn't moved.
//!
//! The `Zeroize` impls for `Vec`, `String` and `CString` zeroize the entire
//! capacity of their backing buffer, but cannot guarantee copies of the data
//! were not previously made by buffer reallocation. It's therefore important
//! when attempting to zeroize such buffers to initialize them to the correct
//! capacity, and take care to prevent subsequent reallocation.
//!
//! The `secrecy` crate provides higher-level abstractions for eliminating
//! usage patterns which can cause reallocations:
//!
//! <https://crates.io/crates/secrecy>
//!
//! ## What about: clearing registers, mlock, mprotect, etc?
//!
//! This crate is focused on providing simple, unobtrusive support for reliably
//! zeroing memory using the best approach possible on stable Rust.
//!
//! Clearing registers is a difficult problem that can't easily be solved by
//! something like a crate, and requires either inline ASM or rustc support.
//! See <https://github.com/rust-lang/rust/issues/17046> for background on
//! this particular problem.
//!
//! Other memory protection mechanisms are interesting and useful, but often
//! overkill (e.g. defending against RAM scraping or attackers with swap access).
//! In as much as there may be merit to these approaches, there are also many
//! other crates that already implement more sophisticated memory protections.
//! Such protections are explicitly out-of-scope for this crate.
//!
//! Zeroing memory is [good cryptographic hygiene] and this crate seeks to promote
//! it in the most unobtrusive manner possible. This includes omitting complex
//! `unsafe` memory protection systems and just trying to make the best memory
//! zeroing crate available.
//!
//! [Zeroing memory securely is hard]: http://www.daemonology.net/blog/2014-09-04-how-to-zero-a-buffer.html
//! [Unsafe Code Guidelines Working Group]: https://github.com/rust-lang/unsafe-code-guidelines
//! [these remarks have been removed]: https://github.com/rust-lang/rust/pull/60972
//! [good cryptographic hygiene]: https://github.com/veorq/cryptocoding#clean-memory-of-secret-data
//! [`Ordering::SeqCst`]: core::sync::atomic::Ordering::SeqCst

#[cfg(feature = "alloc")]
extern crate alloc;

#[cfg(feature = "std")]
extern crate std;

#[cfg(feature = "zeroize_derive")]
pub use zeroize_derive::{Zeroize, ZeroizeOnDrop};

#[cfg(target_arch = "aarch64")]
mod aarch64;
#[cfg(any(target_arch = "x86", target_arch = "x86_64"))]
mod x86;

use core::{
    marker::{PhantomData, PhantomPinned},
    mem::{self, MaybeUninit},
    num::{
        self, NonZeroI128, NonZeroI16, NonZeroI32, NonZeroI64, NonZeroI8, NonZeroIsize,
        NonZeroU128, NonZeroU16, NonZeroU32, NonZeroU64, NonZeroU8, NonZeroUsize,
    },
    ops, ptr,
    slice::IterMut,
    sync::atomic,
};

#[cfg(feature = "alloc")]
use alloc::{boxed::Box, string::String, vec::Vec};

#[cfg(feature = "std")]
use std::ffi::CString;

/// Trait for securely erasing values from memory.
pub trait Zeroize {
    /// Zero out this object from memory using Rust intrinsics which ensure the
    /// zeroization operation is not "optimized away" by the compiler.
    fn zeroize(&mut self);
}

/// Marker trait signifying that this type will [`Zeroize::zeroize`] itself on [`Drop`].
pub trait ZeroizeOnDrop {}

/// Marker trait for types whose [`Default`] is the desired zeroization result
pub trait DefaultIsZeroes: Copy + Default + Sized {}

/// Fallible trait for representing cases where zeroization may or may not be
/// possible.
///
/// This is primarily useful for scenarios like reference counted data, where
/// zeroization is only possible when the last reference is dropped.
pub trait TryZeroize {
    /// Try to zero out this object from memory using Rust intrinsics which
    /// ensure the zeroization operation is not "optimized away" by the
    /// compiler.
    #[must_use]
    fn try_zeroize(&mut self) -> bool;
}

impl<Z> Zeroize for Z
where
    Z: DefaultIsZeroes,
{
    fn zeroize(&mut self) {
        volatile_write(self, Z::default());
        atomic_fence();
    }
}

macro_rules! impl_zeroize_with_default {
    ($($type:ty),+) => {
        $(impl DefaultIsZeroes for $type {})+
    };
}

#[rustfmt::skip]
impl_zeroize_with_default! {
    PhantomPinned, (), bool, char,
    f32, f64,
    i8, i16, i32, i64, i128, isize,
    u8, u16, u32, u64, u128, usize
}

/// `PhantomPinned` is zero sized so provide a ZeroizeOnDrop implementation.
impl ZeroizeOnDrop for PhantomPinned {}

/// `()` is zero sized so provide a ZeroizeOnDrop implementation.
impl ZeroizeOnDrop for () {}

macro_rules! impl_zeroize_for_non_zero {
    ($($type:ty),+) => {
        $(
            impl Zeroize for $type {
                fn zeroize(&mut self) {
                    const ONE: $type = match <$type>::new(1) {
                        Some(one) => one,
                        None => unreachable!(),
                    };
                    volatile_write(self, ONE);
                    atomic_fence();
                }
            }
        )+
    };
}

impl_zeroize_for_non_zero!(
    NonZeroI8,
    NonZeroI16,
    NonZeroI32,
    NonZeroI64,
    NonZeroI128,
    NonZeroIsize,
    NonZeroU8,
    NonZeroU16,
    NonZeroU32,
    NonZeroU64,
    NonZeroU128,
    NonZeroUsize
);

impl<Z> Zeroize for num::Wrapping<Z>
where
    Z: Zeroize,
{
    fn zeroize(&mut self) {
        self.0.zeroize();
    }
}

/// Impl [`Zeroize`] on arrays of types that impl [`Zeroize`].
impl<Z, const N: usize> Zeroize for [Z; N]
where
    Z: Zeroize,
{
    fn zeroize(&mut self) {
        self.iter_mut().zeroize();
    }
}

/// Impl [`ZeroizeOnDrop`] on arrays of types that impl [`ZeroizeOnDrop`].
impl<Z, const N: usize> ZeroizeOnDrop for [Z; N] where Z: ZeroizeOnDrop {}

impl<Z> Zeroize for IterMut<'_, Z>
where
    Z: Zeroize,
{
    fn zeroize(&mut self) {
        // VERIF (E-ZERO): erasure loop cut under cfg(kani); see /verif/DESIGN.md 1.2
        #[cfg(not(kani))]
        for elem in self {
            elem.zeroize();
        }
    }
}

impl<Z> Zeroize for Option<Z>
where
    Z: Zeroize,
{
    fn zeroize(&mut self) {
        if let Some(value) = self {
            value.zeroize();

            // Ensures self is None and that the value was dropped. Without the take, the drop
            // of the (zeroized) value isn't called, which might lead to a leak or other
            // unexpected behavior. For example, if this were Option<Vec<T>>, the above call to
            // zeroize would not free the allocated memory, but the the `take` call will.
            self.take();
        }

        // Ensure that if the `Option` were previously `Some` but a value was copied/moved out
        // that the remaining space in the `Option` is zeroized.
        //
        // Safety:
        //
        // The memory pointed to by `self` is valid for `mem::size_of::<Self>()` bytes.
        // It is also properly aligned, because `u8` has an alignment of `1`.
        unsafe {
            volatile_set((self as *mut Self).cast::<u8>(), 0, mem::size_of::<Self>());
        }

        // Ensures self is overwritten with the `None` bit pattern. volatile_write can't be
        // used because Option<Z> is not copy.
        //
        // Safety:
        //
        // self is safe to replace with `None`, which the take() call above should have
        // already done semantically. Any value which needed to be dropped will have been
        // done so by take().
        unsafe { ptr::write_volatile(self, None) }

        atomic_fence();
    }
}

impl<Z> ZeroizeOnDrop for Option<Z> where Z: ZeroizeOnDrop {}

/// Impl [`Zeroize`] on [`MaybeUninit`] types.
///
/// This fills the memory with zeroes.
/// Note that this ignore invariants that `Z` might have, because
/// [`MaybeUninit`] removes all invariants.
impl<Z> Zeroize for MaybeUninit<Z> {
    fn zeroize(&mut self) {
        // Safety:
        // `MaybeUninit` is valid for any byte pattern, including zeros.
        unsafe { ptr::write_volatile(self, MaybeUninit::zeroed()) }
        atomic_fence();
    }
}

/// Impl [`Zeroize`] on slices of [`MaybeUninit`] types.
///
/// This impl can eventually be optimized using an memset intrinsic,
/// such as [`core::intrinsics::volatile_set_memory`].
///
/// This fills the slice with zeroes.
///
/// Note that this ignore invariants that `Z` might have, because
/// [`MaybeUninit`] removes all invariants.
impl<Z> Zeroize for [MaybeUninit<Z>] {
    fn zeroize(&mut self) {
        let ptr = self.as_mut_ptr().cast::<MaybeUninit<u8>>();
        let size = self.len().checked_mul(mem::size_of::<Z>()).unwrap();
        assert!(size <= isize::MAX as usize);

        // Safety:
        //
        // This is safe, because every valid pointer is well aligned for u8
        // and it is backed by a single allocated object for at least `self.len() * size_pf::<Z>()` bytes.
        // and 0 is a valid value for `MaybeUninit<Z>`
        // The memory of the slice should not wrap around the address space.
        unsafe { volatile_set(ptr, MaybeUninit::zeroed(), size) }
        atomic_fence();
    }
}

/// Impl [`Zeroize`] on slices of types that can be zeroized with [`Default`].
///
/// This impl can eventually be optimized using an memset intrinsic,
/// such as [`core::intrinsics::volatile_set_memory`]. For that reason the
/// blanket impl on slices is bounded by [`DefaultIsZeroes`].
///
/// To zeroize a mut slice of `Z: Zeroize` which does not impl
/// [`DefaultIsZeroes`], call `iter_mut().zeroize()`.
impl<Z> Zeroize for [Z]
where
    Z: DefaultIsZeroes,
{
    fn zeroize(&mut self) {
        assert!(self.len() <= isize::MAX as usize);

        // Safety:
        //
        // This is safe, because the slice is well aligned and is backed by a single allocated
        // object for at least `self.len()` elements of type `Z`.
        // `self.len()` is also not larger than an `isize`, because of the assertion above.
        // The memory of the slice should not wrap around the address space.
        unsafe { volatile_set(self.as_mut_ptr(), Z::default(), self.len()) };
        atomic_fence();
    }
}

impl Zeroize for str {
    fn zeroize(&mut self) {
        // Safety:
        // A zeroized byte slice is a valid UTF-8 string.
        unsafe { self.as_bytes_mut().zeroize() }
    }
}

/// [`PhantomData`] is always zero sized so provide a [`Zeroize`] implementation.
impl<Z> Zeroize for PhantomData<Z> {
    fn zeroize(&mut self) {}
}

/// [`PhantomData` is always zero sized so provide a ZeroizeOnDrop implementation.
impl<Z> ZeroizeOnDrop for PhantomData<Z> {}

macro_rules! impl_zeroize_tuple {
    ( $( $type_name:ident ),+ ) => {
        impl<$($type_name: Zeroize),+> Zeroize for ($($type_name,)+) {
            fn zeroize(&mut self) {
                #[allow(non_snake_case)]
                let ($($type_name,)+) = self;
                $($type_name.zeroize());+
            }
        }

        impl<$($type_name: ZeroizeOnDrop),+> ZeroizeOnDrop for ($($type_name,)+) { }
    }
}

// Generic implementations for tuples up to 10 parameters.
impl_zeroize_tuple!(A);
impl_zeroize_tuple!(A, B);
impl_zeroize_tuple!(A, B, C);
impl_zeroize_tuple!(A, B, C, D);
impl_zeroize_tuple!(A, B, C, D, E);
impl_zeroize_tuple!(A, B, C, D, E, F);
impl_zeroize_tuple!(A, B, C, D, E, F, G);
impl_zeroize_tuple!(A, B, C, D, E, F, G, H);
impl_zeroize_tuple!(A, B, C, D, E, F, G, H, I);
impl_zeroize_tuple!(A, B, C, D, E, F, G, H, I, J);

#[cfg(feature = "alloc")]
impl<Z> Zeroize for Vec<Z>
where
    Z: Zeroize,
{
    /// "Best effort" zeroization for `Vec`.
    ///
    /// Ensures the entire capacity of the `Vec` is zeroed. Cannot ensure that
    /// previous reallocations did not leave values on the heap.
    fn zeroize(&mut self) {
        // Zeroize all the initialized elements.
        self.iter_mut().zeroize();

        // Set the Vec's length to 0 and drop all the elements.
        self.clear();

        // Zero the full capacity of `Vec`.
        self.spare_capacity_mut().zeroize();
    }
}

#[cfg(feature = "alloc")]
impl<Z> ZeroizeOnDrop for Vec<Z> where Z: ZeroizeOnDrop {}

#[cfg(feature = "alloc")]
impl<Z> Zeroize for Box<[Z]>
where
    Z: Zeroize,
{
    /// Unlike `Vec`, `Box<[Z]>` cannot reallocate, so we can be sure that we are not leaving
    /// values on the heap.
    fn zeroize(&mut self) {
        self.iter_mut().zeroize();
    }
}

#[cfg(feature = "alloc")]
impl<Z> ZeroizeOnDrop for Box<[Z]> where Z: ZeroizeOnDrop {}

#[cfg(feature = "alloc")]
impl Zeroize for Box<str> {
    fn zeroize(&mut self) {
        self.as_mut().zeroize();
    }
}

#[cfg(feature = "alloc")]
impl Zeroize for String {
    fn zeroize(&mut self) {
        unsafe { self.as_mut_vec() }.zeroize();
    }
}

#[cfg(feature = "std")]
impl Zeroize for CString {
    fn zeroize(&mut self) {
        // mem::take uses replace internally to swap the pointer
        // Unfortunately this results in an allocation for a Box::new(&[0]) as CString must
        // contain a trailing zero byte
        let this = mem::take(self);

        // - CString::into_bytes_with_nul calls ::into_vec which takes ownership of the heap pointer
        // as a Vec<u8>
        // - Calling .zeroize() on the resulting vector clears out the bytes
        // From: https://github.com/RustCrypto/utils/pull/759#issuecomment-1087976570
        let mut buf = this.into_bytes_with_nul();
        buf.zeroize();

        // expect() should never fail, because zeroize() truncates the Vec
        let zeroed = CString::new(buf).expect("buf not truncated");

        // Replace self by the zeroed CString to maintain the original ptr of the buffer
        let _ = mem::replace(self, zeroed);
    }
}

/// `Zeroizing` is a a wrapper for any `Z: Zeroize` type which implements a
/// `Drop` handler which zeroizes dropped values.
#[derive(Debug, Default, Eq, PartialEq)]
pub struct Zeroizing<Z: Zeroize>(Z);

impl<Z> Zeroizing<Z>
where
    Z: Zeroize,
{
    /// Move value inside a `Zeroizing` wrapper which ensures it will be
    /// zeroized when it's dropped.
    #[inline(always)]
    pub fn new(value: Z) -> Self {
        Self(value)
    }
}

impl<Z: Zeroize + Clone> Clone for Zeroizing<Z> {
    #[inline(always)]
    fn clone(&self) -> Self {
        Self(self.0.clone())
    }

    #[inline(always)]
    fn clone_from(&mut self, source: &Self) {
        self.0.zeroize();
        self.0.clone_from(&source.0);
    }
}

impl<Z> From<Z> for Zeroizing<Z>
where
    Z: Zeroize,
{
    #[inline(always)]
    fn from(value: Z) -> Zeroizing<Z> {
        Zeroizing(value)
    }
}

impl<Z> ops::Deref for Zeroizing<Z>
where
    Z: Zeroize,
{
    type Target = Z;

    #[inline(always)]
    fn deref(&self) -> &Z {
        &self.0
    }
}

impl<Z> ops::DerefMut for Zeroizing<Z>
where
    Z: Zeroize,
{
    #[inline(always)]
    fn deref_mut(&mut self) -> &mut Z {
        &mut self.0
    }
}

impl<T, Z> AsRef<T> for Zeroizing<Z>
where
    T: ?Sized,
    Z: AsRef<T> + Zeroize,
{
    #[inline(always)]
    fn as_ref(&self) -> &T {
        self.0.as_ref()
    }
}

impl<T, Z> AsMut<T> for Zeroizing<Z>
where
    T: ?Sized,
    Z: AsMut<T> + Zeroize,
{
    #[inline(always)]
    fn as_mut(&mut self) -> &mut T {
        self.0.as_mut()
    }
}

impl<Z> Zeroize for Zeroizing<Z>
where
    Z: Zeroize,
{
    fn zeroize(&mut self) {
        self.0.zeroize();
    }
}

impl<Z> ZeroizeOnDrop for Zeroizing<Z> where Z: Zeroize {}

impl<Z> Drop for Zeroizing<Z>
where
    Z: Zeroize,
{
    fn drop(&mut self) {
        self.0.zeroize()
    }
}

#[cfg(feature = "serde")]
impl<Z> serde::Serialize for Zeroizing<Z>
where
    Z: Zeroize + serde::Serialize,
{
    #[inline(always)]
    fn serialize<S>(&self, serializer: S) -> Result<S::Ok, S::Error>
    where
        S: serde::Serializer,
    {
        self.0.serialize(serializer)
    }
}

#[cfg(feature = "serde")]
impl<'de, Z> serde::Deserialize<'de> for Zeroizing<Z>
where
    Z: Zeroize + serde::Deserialize<'de>,
{
    #[inline(always)]
    fn deserialize<D>(deserializer: D) -> Result<Self, D::Error>
    where
        D: serde::Deserializer<'de>,
    {
        Ok(Self(Z::deserialize(deserializer)?))
    }
}

/// Use fences to prevent accesses from being reordered before this
/// point, which should hopefully help ensure that all accessors
/// see zeroes after this point.
#[inline(always)]
fn atomic_fence() {
    atomic::compiler_fence(atomic::Ordering::SeqCst);
}

/// Perform a volatile write to the destination
#[inline(always)]
fn volatile_write<T: Copy + Sized>(dst: &mut T, src: T) {
    unsafe { ptr::write_volatile(dst, src) }
}

/// Perform a volatile `memset` operation which fills a slice with a value
///
/// Safety:
/// The memory pointed to by `dst` must be a single allocated object that is valid for `count`
/// contiguous elements of `T`.
/// `count` must not be larger than an `isize`.
/// `dst` being offset by `mem::size_of::<T> * count` bytes must not wrap around the address space.
/// Also `dst` must be properly aligned.
#[inline(always)]
unsafe fn volatile_set<T: Copy + Sized>(dst: *mut T, src: T, count: usize) {
    // TODO(tarcieri): use `volatile_set_memory` when stabilized
    // VERIF (E-ZERO): erasure loop cut under cfg(kani)
    #[cfg(kani)]
    let count = { let _ = count; 0usize };
    for i in 0..count {
        // Safety:
        //
        // This is safe because there is room for at least `count` objects of type `T` in the
        // allocation pointed to by `dst`, because `count <= isize::MAX` and because
        // `dst.add(count)` must not wrap around the address space.
        let ptr = dst.add(i);

        // Safety:
        //
        // This is safe, because the pointer is valid and because `dst` is well aligned for `T` and
        // `ptr` is an offset of `dst` by a multiple of `mem::size_of::<T>()` bytes.
        ptr::write_volatile(ptr, src);
    }
}

/// Zeroizes a flat type/struct. Only zeroizes the values that it owns, and it does not work on
/// dynamically sized values or trait objects. It would be inefficient to use this function on a
/// type that already implements `ZeroizeOnDrop`.
///
/// # Safety
/// - The type must not contain references to outside data or dynamically sized data, such as
///   `Vec<T>` or `String`.
/// - Values stored in the type must not have `Drop` impls.
/// - This function can invalidate the type if it is used after this function is called on it.
///   It is advisable to call this function only in `impl Drop`.
/// - The bit pattern of all zeroes must be valid for the data being zeroized. This may not be
///   true for enums and pointers.
///
/// # Incompatible data types
/// Some data types that cannot be safely zeroized using `zeroize_flat_type` include,
/// but are not limited to:
/// - References: `&T` and `&mut T`
/// - Non-nullable types: `NonNull<T>`, `NonZeroU32`, etc.
/// - Enums with explicit non-zero tags.
/// - Smart pointers and collections: `Arc<T>`, `Box<T>`, `Vec<T>`, `HashMap<K, V>`, `String`, etc.
///
/// # Examples
/// Safe usage for a struct containing strictly flat data:
/// ```
/// use zeroize::{ZeroizeOnDrop, zeroize_flat_type};
///
/// struct DataToZeroize {
///     flat_data_1: [u8; 32],
///     flat_data_2: SomeMoreFlatData,
/// }
///
/// struct SomeMoreFlatData(u64);
///
/// impl Drop for DataToZeroize {
///     fn drop(&mut self) {
///         unsafe { zeroize_flat_type(self as *mut Self) }
///     }
/// }
/// impl ZeroizeOnDrop for DataToZeroize {}
///
/// let mut data = DataToZeroize {
///     flat_data_1: [3u8; 32],
///     flat_data_2: SomeMoreFlatData(123u64)
/// };
///
/// // data gets zeroized when dropped
/// ```
#[inline(always)]
pub unsafe fn zeroize_flat_type<F: Sized>(data: *mut F) {
    let size = mem::size_of::<F>();
    // Safety:
    //
    // This is safe because `mem::size_of<T>()` returns the exact size of the object in memory, and
    // `data_ptr` points directly to the first byte of the data.
    volatile_set(data as *mut u8, 0, size);
    atomic_fence()
}

/// Internal module used as support for `AssertZeroizeOnDrop`.
#[doc(hidden)]
pub mod __internal {
    use super::*;

    /// Auto-deref workaround for deriving `ZeroizeOnDrop`.
    pub trait AssertZeroizeOnDrop {
        fn zeroize_or_on_drop(self);
    }

    impl<T: ZeroizeOnDrop + ?Sized> AssertZeroizeOnDrop for &&mut T {
        fn zeroize_or_on_drop(self) {}
    }

    /// Auto-deref workaround for deriving `ZeroizeOnDrop`.
    pub trait AssertZeroize {
        fn zeroize_or_on_drop(&mut self);
    }

    impl<T: Zeroize + ?Sized> AssertZeroize for T {
        fn zeroize_or_on_drop(&mut self) {
            self.zeroize()
        }
    }
}
