#!/usr/bin/env python3
"""Run the quick check of each seeded change's property against a scratch worktree with the change applied.
usage: dev/seedmatrix.py [ids...]   (ids like C03a)   results -> /verif/seeded/matrix.json"""
import json, os, re, subprocess, sys, time
from concurrent.futures import ThreadPoolExecutor
V = "/verif"
def sh(cmd, cwd=None, env=None):
    r = subprocess.run(cmd, shell=True, cwd=cwd, capture_output=True, text=True, env=env)
    return r.returncode, r.stdout + r.stderr
def run_prop(prop, variants):
    out = []
    for v in variants:
        sid = prop + v
        wt = os.environ.get("SEED_WT_ROOT", "/tmp/seed2" if v in "cd" else "/tmp/seed") + "/" + prop
        d = os.path.join(V, "seeded", sid)
        sh("git reset -q; git checkout -- . ; git clean -fdq -e target", wt)
        rc, o = sh("git apply %s/patch.diff" % d, wt)
        if rc != 0:
            out.append({"id": sid, "error": "patch does not apply: " + o[:200]}); continue
        env = dict(os.environ); env["VERIF_REPO"] = wt
        tier = os.environ.get("SEED_TIER", "quick")
        t0 = time.time()
        rc, o = sh("./check %s --tier %s --no-evidence%s" % (prop, tier, " --fail-fast" if os.environ.get("SEED_FAIL_FAST", "1") == "1" else ""), V, env)
        if rc == 2 and "--fail-fast" in " --fail-fast" and os.environ.get("SEED_FAIL_FAST", "1") == "1":
            # fail-fast stopped on a counterexample that did not reproduce natively: let every harness speak
            rc, o = sh("./check %s --tier %s --no-evidence" % (prop, tier), V, env)
        sh("git reset -q; git checkout -- . ; git clean -fdq -e target", wt)
        fails = re.findall(r"^\s+\[\w+\] (\S+)\s+(fail|inconclusive|infra)\s", o, re.M)
        cex = re.findall(r"counterexample: harness (\S+): (.*?) @", o)
        rec = {"id": sid, "property": prop, "tier": tier, "exit": rc, "detected": rc == 1, "wall_s": round(time.time() - t0),
               "harness_status": fails, "counterexamples": cex[:6], "violation_line": re.findall(r"^VIOLATION.*$", o, re.M)[:1],
               "inconclusive": re.findall(r"^INCONCLUSIVE.*$", o, re.M)[:3]}
        out.append(rec)
        print(json.dumps(rec)); sys.stdout.flush()
    return out
ids = sys.argv[1:] or sorted(d for d in os.listdir(os.path.join(V, "seeded")) if re.match(r"C\d\d[a-d]$", d))
byprop = {}
for i in ids:
    byprop.setdefault(i[:3], []).append(i[3])
with ThreadPoolExecutor(int(os.environ.get("SEED_PAR", "2"))) as ex:
    rows = sum(ex.map(lambda kv: run_prop(*kv), sorted(byprop.items())), [])
path = os.path.join(V, "seeded", "matrix.json")
old = {}
if os.path.exists(path):
    old = {r["id"] + ":" + r.get("tier", "quick"): r for r in json.load(open(path))}
for r in rows:
    old[r["id"] + ":" + r.get("tier", "quick")] = r
json.dump(sorted(old.values(), key=lambda r: (r["id"], r.get("tier", ""))), open(path, "w"), indent=1)
print("detected", sum(1 for r in rows if r.get("detected")), "of", len(rows))
