#!/usr/bin/env python3
"""Confirm each seeded change myself in its scratch worktree and store it under /verif/seeded/<id>/."""
import json, os, re, subprocess, sys, shutil
from concurrent.futures import ThreadPoolExecutor
OUT = "/tmp/seed/out"
def sh(cmd, cwd):
    r = subprocess.run(cmd, shell=True, cwd=cwd, capture_output=True, text=True)
    return r.returncode, (r.stdout + r.stderr)
def clean(wt):
    sh("git reset -q; git checkout -- . ; git clean -fdq -e target", wt)
def crates_of(diff):
    cs = set()
    for m in re.finditer(r"^\+\+\+ b/src/(crypto|cli|ffi)/", open(diff).read(), re.M):
        cs.add(m.group(1))
    return sorted(cs)
def test_cmd(crates):
    return " && ".join("cargo test --offline --manifest-path src/%s/Cargo.toml 2>&1" % c for c in crates)
def passed(out):
    res = re.findall(r"test result: (\w+)\. (\d+) passed; (\d+) failed", out)
    return bool(res) and all(r[0] == "ok" for r in res) and "error: could not compile" not in out, sum(int(r[1]) for r in res), sum(int(r[2]) for r in res)
def one(prop):
    wt = os.environ.get("SEED_WT_ROOT", "/tmp/seed") + "/" + prop
    rows = []
    for v in os.environ.get("SEED_VARIANTS", "a,b").split(","):
        d = os.path.join(OUT, prop, v)
        if not os.path.exists(os.path.join(d, "patch.diff")):
            continue
        rec = {"id": prop + v, "property": prop}
        clean(wt)
        rc, o = sh("git apply %s/demo.diff" % d, wt)
        crates = crates_of(os.path.join(d, "demo.diff"))
        rc, o1 = sh(test_cmd(crates), wt)
        ok1, p1, f1 = passed(o1)
        rec["demo_without_change"] = {"ok": ok1, "passed": p1, "failed": f1}
        clean(wt)
        rc, oa = sh("git apply %s/patch.diff && git apply %s/demo.diff" % (d, d), wt)
        rc, o2 = sh(test_cmd(crates), wt)
        ok2, p2, f2 = passed(o2)
        rec["demo_with_change"] = {"ok": ok2, "passed": p2, "failed": f2, "apply": oa.strip()[:200]}
        clean(wt)
        sh("git apply %s/patch.diff" % d, wt)
        rc, o3 = sh("cargo test --workspace --no-fail-fast --offline 2>&1", wt)
        ok3, p3, f3 = passed(o3)
        rec["suite_with_change"] = {"ok": ok3, "passed": p3, "failed": f3}
        clean(wt)
        rec["confirmed"] = bool(ok1 and (not ok2) and f2 > 0 and ok3 and p3 == 33)
        rec["crates_demo"] = crates
        rows.append(rec)
        if rec["confirmed"]:
            dst = "/verif/seeded/%s%s" % (prop, v)
            os.makedirs(dst, exist_ok=True)
            shutil.copy(os.path.join(d, "patch.diff"), dst)
            shutil.copy(os.path.join(d, "demo.diff"), os.path.join(dst, "demo.diff"))
            shutil.copy(os.path.join(d, "README.md"), os.path.join(dst, "README.md"))
            meta = {"id": prop + v, "breaks_property": prop, "source": "independent sub-agent given only the property text and a scratch worktree",
                    "needs_to_manifest": "see README.md (written by the seeding agent)",
                    "confirmed_by_me": {"demo_passes_without_change": rec["demo_without_change"], "demo_fails_with_change": rec["demo_with_change"],
                                        "existing_suite_with_change": rec["suite_with_change"],
                                        "commands": ["git apply demo.diff; " + test_cmd(crates), "git apply patch.diff demo.diff; " + test_cmd(crates),
                                                     "git apply patch.diff; cargo test --workspace --no-fail-fast --offline"]},
                    "base_commit": "73f0449"}
            json.dump(meta, open(os.path.join(dst, "meta.json"), "w"), indent=1)
        print(json.dumps(rec)); sys.stdout.flush()
    return rows
props = sys.argv[1:] or ["C%02d" % i for i in range(1, 21)]
with ThreadPoolExecutor(3) as ex:
    allrows = sum(ex.map(one, props), [])
json.dump(allrows, open("/tmp/seed/verify_results_%s.json" % os.environ.get("SEED_VARIANTS", "ab").replace(",", ""), "w"), indent=1)
print("confirmed", sum(1 for r in allrows if r["confirmed"]), "of", len(allrows))
