#!/bin/bash
# Offline setup after a fresh restore: nothing to build for the framework itself (Python stdlib only);
# verify the tools, then warm ONE build slot per crate so the first check does not pay the cold dependency build.
set -e
cd "$(dirname "$0")"
export CARGO_NET_OFFLINE=true
cargo kani --version
cbmc --version
python3 -c "import sys; sys.path.insert(0,'.'); from vlib import core, run; p = run.load_plan(); print(len(p.HARNESSES), 'harnesses,', len(p.PROPERTIES), 'properties')"
python3 tools/gen_manifest.py >/dev/null
mkdir -p evidence replays .cache
# warm-up (best effort; a failure here is reported by the checks themselves)
./check C06 --only '^c06_constants$' --no-evidence >/dev/null 2>&1 || true
./check C17 --only '^c17_valid_key_name$' --no-evidence >/dev/null 2>&1 || true
echo "setup ok"
