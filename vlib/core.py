"""Core machinery: scratch tree regeneration, Kani invocation, output parsing.

Everything here works on a *copy* of /repo's current working tree (never on
/repo itself).  See DESIGN.md section 1.
"""
import fcntl
import hashlib
import json
import os
import re
import resource
import shutil
import signal
import subprocess
import sys
import tempfile
import time

VERIF = os.path.dirname(os.path.dirname(os.path.abspath(__file__)))
REPO = os.environ.get("VERIF_REPO", "/repo")
SCRATCH_ROOT = os.environ.get("VERIF_SCRATCH", os.path.join(tempfile.gettempdir(), "kverif"))
ANYHOW_ENV = "anyhow-min"  # harness/env/<dir> patched in for anyhow (anyhow-kani = full crate with backtrace cut; anyhow-min = plain-struct stand-in)
NSLOTS = int(os.environ.get("VERIF_SLOTS", "12"))


def cache_root():
    c = os.environ.get("VERIF_CACHE")
    if c:
        return c
    # a `vp run` snapshot has no .cache of its own: share /verif's build cache
    for cand in ("/verif/.cache", os.path.join(VERIF, ".cache")):
        try:
            os.makedirs(cand, exist_ok=True)
            return cand
        except OSError:
            continue
    raise RuntimeError("no cache dir")


CRATE_DIR = {"kestrel-crypto": "crypto", "kestrel-cli": "cli", "kestrel-ffi": "ffi"}
SHORT = {"crypto": "kestrel-crypto", "cli": "kestrel-cli", "ffi": "kestrel-ffi"}


class InfraError(Exception):
    pass


# --------------------------------------------------------------------------
# slots: one scratch tree + one cargo target dir each, exclusive by flock
# --------------------------------------------------------------------------
class Slot:
    def __init__(self, k, fh):
        self.k = k
        self.fh = fh
        self.tree = os.path.join(SCRATCH_ROOT, "slot%d" % k, "k")
        self.target = os.path.join(cache_root(), "slot%d" % k, "target")
        self.state = os.path.join(cache_root(), "slot%d" % k, "state.json")

    def release(self):
        shutil.rmtree(os.path.dirname(self.tree), ignore_errors=True)
        try:
            fcntl.flock(self.fh, fcntl.LOCK_UN)
            self.fh.close()
        except Exception:
            pass


def acquire_slots(n, wait=True):
    os.makedirs(SCRATCH_ROOT, exist_ok=True)
    os.makedirs(cache_root(), exist_ok=True)
    got = []
    deadline = time.time() + 3600
    while True:
        for k in range(NSLOTS):
            if len(got) == n:
                break
            if any(s.k == k for s in got):
                continue
            fh = open(os.path.join(cache_root(), "slot%d.lock" % k), "w")
            try:
                fcntl.flock(fh, fcntl.LOCK_EX | fcntl.LOCK_NB)
            except OSError:
                fh.close()
                continue
            got.append(Slot(k, fh))
        if got:
            return got  # make do with what is free (at least one)
        if time.time() > deadline:
            raise InfraError("no free build slot")
        time.sleep(2)


# --------------------------------------------------------------------------
# scratch tree
# --------------------------------------------------------------------------
def _sha_tree(root, rels):
    h = hashlib.sha256()
    for rel in sorted(rels):
        p = os.path.join(root, rel)
        h.update(rel.encode())
        with open(p, "rb") as f:
            body = f.read()
        if b"/harness/inject_ext/" in body:
            # the include line of an extension harness file is not part of the other harnesses' key (ext_inject_files)
            body = b"".join(l for l in body.splitlines(True) if not (l.startswith(b"#[cfg(kani)] include!(") and b"/harness/inject_ext/" in l))
        h.update(body)
    return h.hexdigest()


def inject_files(sub="inject"):
    d = os.path.join(VERIF, "harness", sub)
    out = []
    for fn in (sorted(os.listdir(d)) if os.path.isdir(d) else []):
        m = re.match(r"^(crypto|cli|ffi)__([a-z_]+)\.rs$", fn)
        if m:
            out.append((m.group(1), m.group(2), os.path.join(d, fn)))
    return out


def ext_inject_files():
    """Extension harness files (harness/inject_ext): injected like the others, but self-contained modules whose text is
    part of the result-cache key of the harnesses DEFINED IN THEM only (spec ext=True). Adding one therefore does not
    force every other harness of the crate to be solved again; Kani compiles per harness only what that harness reaches,
    so an extra sibling module cannot change another harness's verdict."""
    return inject_files("inject_ext")


def prepare_tree(slot, real_zeroize=False, replay=False):
    """Regenerate the scratch copy of /repo's working tree in `slot`."""
    tree = slot.tree
    shutil.rmtree(os.path.dirname(tree), ignore_errors=True)
    os.makedirs(tree)
    r = subprocess.run(
        ["rsync", "-a", "--exclude", "/target", "--exclude", "/.git", REPO + "/", tree + "/"],
        capture_output=True, text=True)
    if r.returncode != 0:
        raise InfraError("rsync failed: " + r.stderr)
    touched = []
    for crate, module, path in inject_files() + ext_inject_files():
        src = os.path.join(tree, "src", crate, "src", module + ".rs")
        if not os.path.exists(src):
            raise InfraError("cannot inject: %s missing in working tree" % src)
        st = os.stat(src)
        with open(src, "rb") as f:
            body = f.read()
        add = b"" if body.endswith(b"\n") else b"\n"
        add += ('#[cfg(kani)] include!("%s");\n' % path).encode()
        rp = os.path.join(VERIF, "harness", "replay", "%s__%s.rs" % (crate, module))
        if replay and os.path.exists(rp):
            add += ('#[cfg(verif_replay)] include!("%s");\n' % rp).encode()
        with open(src, "ab") as f:
            f.write(add)
        os.utime(src, (st.st_atime, st.st_mtime))
        touched.append(src)
    # workspace manifest: make cli/ffi use the working-tree crypto crate
    ws = os.path.join(tree, "Cargo.toml")
    with open(ws) as f:
        man = f.read()
    if "[patch.crates-io]" in man:
        raise InfraError("workspace manifest already has a [patch] table")
    man += '\n[patch.crates-io]\nkestrel-crypto = { path = "src/crypto" }\n'
    man += 'ct-codecs = { path = "%s" }\n' % os.path.join(VERIF, "harness", "env", "ct-codecs-kani")
    man += 'anyhow = { path = "%s" }\n' % os.path.join(VERIF, "harness", "env", os.environ.get("VERIF_ANYHOW", ANYHOW_ENV))
    if not real_zeroize:
        man += 'zeroize = { path = "%s" }\n' % os.path.join(VERIF, "harness", "env", "zeroize-kani")
    with open(ws, "w") as f:
        f.write(man)
    ffi = os.path.join(tree, "src", "ffi", "Cargo.toml")
    if os.path.exists(ffi):
        with open(ffi) as f:
            t = f.read()
        t2 = re.sub(r'crate-type\s*=\s*\[([^\]]*)\]',
                    lambda m: 'crate-type = [%s, "rlib"]' % m.group(1) if "rlib" not in m.group(1) else m.group(0), t)
        with open(ffi, "w") as f:
            f.write(t2)
    # content hash: if the tree (incl. harness sources) is byte-identical to what this slot
    # built last time, keep the old mtimes so cargo reuses its cache; else force a rebuild.
    rels = []
    for base, dirs, files in os.walk(tree):
        dirs[:] = [d for d in dirs if d not in ("target", ".git")]
        for fn in files:
            if fn.endswith((".rs", ".toml", ".lock")):
                rels.append(os.path.relpath(os.path.join(base, fn), tree))
    # One digest per crate under test: a harness in kestrel-crypto is a function of src/crypto (+ workspace manifest,
    # lock file, environment crates, crypto harness sources) only; cli / ffi harnesses additionally depend on their own
    # crate. Result reuse (run.py) is keyed by the digest of the harness's crate, so e.g. an edit under src/cli does not
    # force the crypto harnesses to be re-solved.
    def crate_digest(crate):
        skip = {"crypto": ("src/cli/", "src/ffi/"), "cli": ("src/ffi/",), "ffi": ("src/cli/",)}[crate]
        use = {"crypto": ("crypto",), "cli": ("crypto", "cli"), "ffi": ("crypto", "ffi")}[crate]
        hh = hashlib.sha256()
        hh.update(_sha_tree(tree, [r_ for r_ in rels if not r_.replace(os.sep, "/").startswith(skip)]).encode())
        for c_, _, p_ in inject_files():
            if c_ in use:
                with open(p_, "rb") as f:
                    hh.update(f.read())
        # environment crates this crate links: kestrel-crypto / kestrel-ffi only see zeroize; the CLI sees all of them
        anyhow_dir = os.environ.get("VERIF_ANYHOW", ANYHOW_ENV)
        envs = ["zeroize-kani"] if crate in ("crypto", "ffi") else ["zeroize-kani", "ct-codecs-kani", anyhow_dir]
        for env_crate in envs:
            for base, dirs, files in os.walk(os.path.join(VERIF, "harness", "env", env_crate)):
                dirs.sort()
                for fn in sorted(files):
                    if fn.endswith((".rs", ".toml")):
                        with open(os.path.join(base, fn), "rb") as f:
                            hh.update(f.read())
        hh.update(b"rz" if real_zeroize else b"kz")
        return hh.hexdigest()
    digests = {"kestrel-crypto": crate_digest("crypto"), "kestrel-cli": crate_digest("cli"),
               "kestrel-ffi": crate_digest("ffi")}
    hx = hashlib.sha256()
    for _c, _m, p_ in ext_inject_files():
        with open(p_, "rb") as f:
            hx.update(f.read())
    ext_digest = hx.hexdigest()
    digest = hashlib.sha256(json.dumps(digests, sort_keys=True).encode()).hexdigest()
    prev = None
    try:
        with open(slot.state) as f:
            prev = json.load(f).get("digest")
    except Exception:
        pass
    # Always give the workspace sources a fresh mtime: cargo then rebuilds the three kestrel crates (5-10 s) and can
    # never reuse objects built from another tree state in this slot (observed once: a stale build of a mutated tree).
    # Third-party dependencies stay cached.
    now = time.time()
    for rel in rels:
        if rel.endswith(".rs"):
            os.utime(os.path.join(tree, rel), (now, now))
    os.makedirs(os.path.dirname(slot.state), exist_ok=True)
    with open(slot.state, "w") as f:
        json.dump({"digest": digest, "crates": digests, "at": time.time()}, f)
    digests = dict(digests, __ext__=ext_digest)
    return digest, digests


def repo_state():
    def g(*a):
        r = subprocess.run(["git", "-C", REPO] + list(a), capture_output=True, text=True)
        return r.stdout.strip()
    return {"head": g("rev-parse", "HEAD"), "dirty": bool(g("status", "--porcelain", "--untracked-files=no"))}


# --------------------------------------------------------------------------
# running Kani
# --------------------------------------------------------------------------
def _limits(mem_gb):
    def f():
        os.setsid()
        if mem_gb:
            b = int(mem_gb * (1 << 30))
            resource.setrlimit(resource.RLIMIT_AS, (b, b))
    return f


import threading as _threading
CANCEL = _threading.Event()  # set by the runner in --fail-fast mode once a violation has been established


def run_cmd(cmd, cwd, env, timeout, mem_gb=None, log=None):
    t0 = time.time()
    out = open(log, "w") if log else subprocess.PIPE
    p = subprocess.Popen(cmd, cwd=cwd, env=env, stdout=out, stderr=subprocess.STDOUT,
                         preexec_fn=_limits(mem_gb), text=True)
    timed_out = False
    so = None
    deadline = t0 + timeout
    while True:
        try:
            so, _ = p.communicate(timeout=2)
            break
        except subprocess.TimeoutExpired:
            cancelled = CANCEL.is_set()
            if cancelled or time.time() > deadline:
                timed_out = not cancelled
                try:
                    os.killpg(p.pid, signal.SIGKILL)
                except ProcessLookupError:
                    pass
                so, _ = p.communicate()
                if cancelled:
                    if log:
                        out.close()
                    return -9, "CANCELLED (fail-fast: another harness of this check already reported a violation)\n", False, time.time() - t0
                break
    if log:
        out.close()
        with open(log, errors="replace") as f:
            so = f.read()
    return p.returncode, so or "", timed_out, time.time() - t0


def kani_env():
    env = dict(os.environ)
    env["CARGO_NET_OFFLINE"] = "true"
    env["RUSTFLAGS"] = os.environ.get("VERIF_RUSTFLAGS", '-Zcrate-attr=recursion_limit="8192" -Zcrate-attr=feature(pattern) -Zcrate-attr=feature(str_lines_remainder)')
    env.pop("RUSTUP_TOOLCHAIN", None)
    env["CARGO_TERM_COLOR"] = "never"
    return env


def kani_cmd(spec, slot, playback=False):
    cmd = ["cargo", "kani", "-p", spec["crate"], "--harness", spec["mod"] + "::" + spec["name"], "--exact", "-Z", "stubbing",
           "--target-dir", slot.target]
    extra = list(spec.get("kani_args", []))
    cb = list(spec.get("cbmc_args", []))
    if spec.get("unwindset"):
        cb += ["--unwindset", ",".join(spec["unwindset"])]
    if playback:
        cmd += ["-Z", "concrete-playback", "--concrete-playback=print"]
    if cb or extra:
        cmd += ["-Z", "unstable-options"]
    cmd += extra
    if cb:
        cmd += ["--cbmc-args"] + cb
    return cmd


CHECK_RE = re.compile(
    r"^Check (\d+): ([^\n]+)\n\t - Status: (\w+)\n\t - Description: \"(.*?)\"\n\t - Location: (.*?)$",
    re.M | re.S)


def parse_kani(out):
    """Parse Kani's regular output into a dict."""
    res = {"checks": [], "stubs": [], "verdict": None, "stats": {}}
    res["stubs"] = re.findall(r"^\s+- Stub: (.*)$", out, re.M)
    for m in CHECK_RE.finditer(out):
        loc = m.group(5).strip()
        fn = None
        mm = re.search(r" in function (.*)$", loc)
        if mm:
            fn = mm.group(1)
        res["checks"].append({"n": int(m.group(1)), "id": m.group(2), "status": m.group(3),
                              "desc": m.group(4), "loc": loc, "fn": fn})
    m = re.search(r"VERIFICATION:- (\w+)", out)
    if m:
        res["verdict"] = m.group(1)
    m = re.search(r"\*\* (\d+) of (\d+) failed", out)
    if m:
        res["n_failed"], res["n_checks"] = int(m.group(1)), int(m.group(2))
    m = re.search(r"\*\* (\d+) of (\d+) cover properties satisfied", out)
    if m:
        res["covers_sat"], res["covers_total"] = int(m.group(1)), int(m.group(2))
    st = res["stats"]
    m = re.search(r"Generated (\d+) VCC\(s\), (\d+) remaining after simplification", out)
    if m:
        st["vccs"], st["vccs_nontrivial"] = int(m.group(1)), int(m.group(2))
    m = re.search(r"size of program expression: (\d+) steps", out)
    if m:
        st["steps"] = int(m.group(1))
    vc = re.findall(r"^(\d+) variables, (\d+) clauses", out, re.M)
    if vc:
        st["variables"], st["clauses"] = max(int(a) for a, _ in vc), max(int(b) for _, b in vc)
        st["solver_calls"] = len(vc)
    for key, pat in (("symex_s", r"Runtime Symex: ([\d.e+-]+)s"),
                     ("solver_s", r"Runtime Solver: ([\d.e+-]+)s"),
                     ("decision_s", r"Runtime decision procedure: ([\d.e+-]+)s")):
        vals = [float(x) for x in re.findall(pat, out)]
        if vals:
            st[key] = round(sum(vals), 3)
    m = re.search(r"Verification Time: ([\d.]+)s", out)
    if m:
        st["verification_s"] = float(m.group(1))
    res["compile_error"] = bool(re.search(r"^error(\[E\d+\]:|: could not compile)", out, re.M)) and "Checking harness" not in out
    res["oom"] = (("std::bad_alloc" in out) or ("Out of memory" in out) or ("memory exhausted" in out.lower())
                  or ("ran out of memory" in out) or ("memory allocation of" in out))
    res["playback"] = parse_playback(out)
    return res


def parse_playback(out):
    """Extract concrete playback tests printed by Kani: list of {check, vals:[bytes...]}"""
    tests = []
    for blk in re.split(r"Concrete playback unit test for `", out)[1:]:
        chk = re.search(r"/// Check for `(\w+)`: \"(.*)\"\s*$", blk, re.M)
        body = blk.split("let concrete_vals", 1)
        if len(body) < 2:
            continue
        body = body[1].split("kani::concrete_playback_run", 1)[0]
        vals = []
        for vm in re.finditer(r"vec!\[([0-9,\s]*)\]", body):
            s = vm.group(1).strip()
            vals.append([int(x) for x in s.split(",") if x.strip()] if s else [])
        # first vec![ is the outer one and contains nothing parsable; regex above only hits inner
        tests.append({"check": chk.group(2) if chk else None, "vals": vals})
    return tests
