"""Property-level driver: select harnesses, run them, classify, replay, write evidence."""
import importlib.util
import json
import os
import re
import shutil
import sys
import threading
import time

from . import core

VERIF = core.VERIF
KNOWN_FILE = os.path.join(VERIF, "known_findings.txt")
TRUSTED_BASE = [
    "Kani 0.68.0 (rustc MIR -> goto-program translation, std models)",
    "CBMC 6.11.0 symbolic execution + bit-blasting, CaDiCaL 3.0.0 SAT solver",
    "rustc/std of Kani's pinned toolchain (nightly-2026-08-21)",
    "third-party crates as environment: orion 0.17.8, ct-codecs 1.1.3, getopts, passterm, anyhow, getrandom, zeroize 1.8.1 (see stubs per harness)",
]


def load_plan():
    p = os.path.join(VERIF, "harness", "plan.py")
    spec = importlib.util.spec_from_file_location("verif_plan", p)
    m = importlib.util.module_from_spec(spec)
    spec.loader.exec_module(m)
    return m


def load_known():
    known, fixed = [], []
    if not os.path.exists(KNOWN_FILE):
        return known, fixed
    for line in open(KNOWN_FILE):
        line = line.strip()
        if not line or line.startswith("#"):
            continue
        kind, _, rest = line.partition(":")
        fields = dict((m.group(1), m.group(2) if m.group(2) is not None else m.group(3))
                      for m in re.finditer(r'(\w+)=(?:"((?:[^"\\]|\\.)*)"|(\S+))', rest))
        if kind == "known":
            known.append(fields)
        elif kind == "fixed":
            fixed.append(fields)
    return known, fixed


def tags_of(desc):
    t = []
    for m in re.finditer(r"\[(C\d+(?:\s*,\s*C\d+)*)\]", desc):
        t += [x.strip() for x in m.group(1).split(",")]
    return t


def is_unwind(c):
    return "unwinding assertion" in c["desc"] or ".unwind." in c["id"] or ".recursion" in c["id"]


def is_unsupported(c):
    return ("unsupported_construct" in c["id"] or "is not currently supported by Kani" in c["desc"]
            or "unsupported" in c["id"])


def is_cover(c):
    return ".cover." in c["id"] or c["status"] in ("SATISFIED", "UNSATISFIABLE")


def relevant(c, prop, spec):
    t = tags_of(c["desc"])
    if t:
        return prop in t
    return prop in spec.get("auto_props", spec["props"])


def classify(spec, prop, parsed, timed_out, rc):
    """-> dict(status=pass|fail|inconclusive, reason, failures=[checks], covers=[...])"""
    r = {"status": None, "reason": "", "failures": [], "other_failures": [], "covers": []}
    checks = parsed["checks"]
    for c in checks:
        if is_cover(c):
            r["covers"].append({"desc": c["desc"], "status": c["status"]})
    fails = [c for c in checks if c["status"] == "FAILURE" and not is_cover(c)]
    limit = [c for c in fails if "[LIMIT]" in c["desc"]]
    # preconditions of Kani's own allocator model (kani_lib.c: __rust_dealloc/__rust_alloc): in safe Rust these can only
    # fail through a model quirk (seen: capacity-0 Vec returned from a stub), never through the code under test
    quirk = [c for c in fails if "kani_lib.c" in (c.get("loc") or "") and not spec.get("trust_alloc_checks")]
    real = [c for c in fails if not is_unwind(c) and not is_unsupported(c) and "[LIMIT]" not in c["desc"] and c not in quirk]
    rel = [c for c in real if relevant(c, prop, spec)]
    r["other_failures"] = [c for c in real if not relevant(c, prop, spec)]
    if limit:
        r.update(status="inconclusive", reason="harness limit exceeded: " + limit[0]["desc"])
        return r
    if quirk and not [c for c in real if relevant(c, prop, spec)]:
        r.update(status="inconclusive", reason="allocator-model precondition failed (back-end model quirk, not attributable to the code under test): " + quirk[0]["desc"])
        return r
    if rel:
        r["status"] = "fail"
        r["failures"] = rel
        return r
    if parsed.get("oom") or any(c["status"] == "ERROR" for c in checks):
        r.update(status="inconclusive", reason="solver/back end ran out of memory or errored")
        return r
    if parsed.get("compile_error"):
        r.update(status="infra", reason="harness does not compile against the working tree")
        return r
    if timed_out:
        r.update(status="inconclusive", reason="time limit %ss" % spec.get("timeout"))
        return r
    if parsed["verdict"] is None:
        r.update(status="inconclusive", reason="no verdict (rc=%s%s)" % (rc, ", out of memory" if parsed.get("oom") else ""))
        return r
    if any(is_unwind(c) for c in fails):
        r.update(status="inconclusive", reason="unwinding assertion failed: bound too small for this code")
        return r
    if any(is_unsupported(c) for c in fails):
        r.update(status="inconclusive", reason="unsupported construct reachable")
        return r
    und = [c for c in checks if c["status"] == "UNDETERMINED"]
    if und:
        r.update(status="inconclusive", reason="%d checks UNDETERMINED" % len(und))
        return r
    bad_cov = [c for c in r["covers"] if c["status"] != "SATISFIED" and "[opt]" not in c["desc"]]
    if bad_cov:
        r.update(status="inconclusive",
                 reason="vacuity guard: cover not satisfied: " + "; ".join(c["desc"] for c in bad_cov[:3]))
        return r
    if parsed["verdict"] == "SUCCESSFUL" or (parsed["verdict"] == "FAILED" and r["other_failures"]):
        r["status"] = "pass"
        return r
    r.update(status="inconclusive", reason="verdict %s without attributable failure" % parsed["verdict"])
    return r


def match_known(known, prop, harness, check):
    for k in known:
        if k.get("property") == prop and k.get("harness") == harness and re.search(k.get("match", "."), check["desc"]):
            return k
    return None


# --------------------------------------------------------------------------
def run_harness(spec, slot, prop, logdir, playback=False):
    tree_digest, crate_digests = core.prepare_tree(slot, real_zeroize=spec.get("real_zeroize", False))
    digest = crate_digests.get(spec["crate"], tree_digest)
    if spec.get("ext"):
        # harness defined in harness/inject_ext: its own sources are part of its key (and of nobody else's)
        digest = digest + crate_digests.get("__ext__", "")
    log = os.path.join(logdir, spec["name"] + (".playback" if playback else "") + ".log")
    if any("{CLI}" in u for u in spec.get("unwindset", [])):
        # per-loop bounds name loops by mangled symbol, and the mangling of kestrel-cli's own symbols contains a crate
        # disambiguator that depends on the dependency graph: discover it from a codegen-only build of this harness
        spec = dict(spec)
        cg = core.kani_cmd(dict(spec, unwindset=[], cbmc_args=[]), slot) + ["--only-codegen"]
        rc0, out0, _, _ = core.run_cmd(cg, slot.tree, core.kani_env(), 900, mem_gb=20, log=log + ".codegen")
        dis = None
        for base, dirs, files in os.walk(os.path.join(slot.target, "kani")):
            for fn in files:
                m = re.search(r"(Cs[0-9A-Za-z]+_7kestrel)\d+commands|(Cs[0-9A-Za-z]+_7kestrel)\d+keyring|(Cs[0-9A-Za-z]+_7kestrel)\d", fn)
                if m and spec["name"] in fn:
                    dis = next(g for g in m.groups() if g)
        if dis is None:
            raise core.InfraError("could not determine the crate disambiguator of kestrel-cli (codegen rc %s)" % rc0)
        spec["unwindset"] = [u.replace("{CLI}", dis) for u in spec["unwindset"]]
    cmd = core.kani_cmd(spec, slot, playback=playback)
    # Result reuse: a harness is a deterministic function of (working tree, harness sources, options). The digest
    # is recomputed from /repo's CURRENT tree on every run; if this very harness already ran on a byte-identical
    # tree (e.g. for another property a minute ago) its parsed result is reused instead of re-solving.
    ckey = None
    if not playback and os.environ.get("VERIF_NO_REUSE") != "1":
        import hashlib
        ckey = hashlib.sha256((digest + spec["name"] + json.dumps([spec.get("kani_args"), spec.get("cbmc_args"), spec.get("unwindset")])).encode()).hexdigest()[:32]
        cpath = os.path.join(core.cache_root(), "results", ckey + ".json")
        if os.path.exists(cpath):
            try:
                r = json.load(open(cpath))
                if r["parsed"].get("verdict") is not None and not r["timed_out"]:
                    r["spec"] = spec
                    r["reused"] = True
                    return r
            except Exception:
                pass
    rc, out, to, wall = core.run_cmd(cmd, slot.tree, core.kani_env(),
                                     spec.get("timeout", 600) * (3 if playback else 1),
                                     mem_gb=(40 if playback else spec.get("rlimit_gb", 20)), log=log)
    parsed = core.parse_kani(out)
    m = re.search(r"Checking harness (\S+?)\.\.\.", out)
    parsed["harness_path"] = m.group(1) if m else None
    res = {"spec": spec, "rc": rc, "timed_out": to, "wall_s": round(wall, 1), "parsed": parsed, "raw_head": out[:120],
           "log": log, "cmd": " ".join(cmd), "reused": False, "tree_digest": digest}
    if ckey and parsed.get("verdict") is not None and not to:
        try:
            os.makedirs(os.path.join(core.cache_root(), "results"), exist_ok=True)
            slim = dict(res)
            slim.pop("spec")
            tmp = cpath + ".tmp%d" % os.getpid()
            with open(tmp, "w") as f:
                json.dump(slim, f)
            os.replace(tmp, cpath)
        except Exception:
            pass
    return res


PLAYBACK_INTERNAL = ("Not enough det vals found", "there were still these concrete values left over",
                     "bytes in the following det vals vec")


def native_playback(spec, slot, harness_path, vals, logdir, label):
    """Replay a solver assignment natively: the harness is compiled by plain rustc (cfg(kani),
    stubs NOT applied => real primitives) and executed with the concrete values."""
    core.prepare_tree(slot, real_zeroize=True)
    crate_dir = core.CRATE_DIR[spec["crate"]]
    root = os.path.join(slot.tree, "src", crate_dir, "src", "main.rs" if crate_dir == "cli" else "lib.rs")
    body = ", ".join("vec![%s]" % ", ".join(str(b) for b in v) for v in vals)
    with open(root, "a") as f:
        f.write("\n#[cfg(kani)]\nmod verif_playback_gen {\n    #[test]\n    fn verif_playback_case() {\n"
                "        let concrete_vals: Vec<Vec<u8>> = vec![%s];\n"
                "        kani::concrete_playback_run(concrete_vals, crate::%s);\n    }\n}\n" % (body, harness_path))
    results = {}
    env = core.kani_env()
    env["CARGO_TARGET_DIR"] = os.path.join(os.path.dirname(slot.target), "playback-target")
    env["RUST_BACKTRACE"] = "0"
    env["VERIF_NATIVE"] = "1"
    for profile in ("dev", "release"):
        cmd = ["cargo", "kani", "playback", "-Z", "concrete-playback", "-p", spec["crate"]]
        if profile == "release":
            env["CARGO_PROFILE_TEST_OPT_LEVEL"] = "3"
            env["CARGO_PROFILE_TEST_DEBUG_ASSERTIONS"] = "false"
            env["CARGO_PROFILE_TEST_OVERFLOW_CHECKS"] = "false"
        cmd += ["--", "verif_playback_gen::verif_playback_case", "--exact", "--nocapture", "--test-threads", "1"]
        log = os.path.join(logdir, "%s.%s.native-%s.log" % (spec["name"], label, profile))
        rc, out, to, wall = core.run_cmd(cmd, slot.tree, env, 900, log=log)
        ran = "running 1 test" in out
        failed = ran and re.search(r"test result: FAILED", out) is not None
        internal = any(s in out for s in PLAYBACK_INTERNAL)
        pm = re.search(r"panicked at ([^\n]*):\n([^\n]*)", out)
        results[profile] = {"ran": ran, "panicked": bool(failed), "playback_internal": internal,
                            "panic": (pm.group(2).strip() if pm else None),
                            "panic_at": (pm.group(1).strip() if pm else None),
                            "reproduced": bool(failed and not internal), "log": log}
    return results


# --------------------------------------------------------------------------
def select(plan, prop, tier, only=None):
    hs = []
    for h in plan.HARNESSES:
        if prop not in h["props"]:
            continue
        if tier == "quick" and h.get("tier", "quick") != "quick":
            continue
        # a heavy harness may be quick-tier for its main properties only (`quick_props`) and thorough-tier for the others
        if tier == "quick" and h.get("quick_props") is not None and prop not in h["quick_props"]:
            continue
        if only and not re.search(only, h["name"]):
            continue
        hs.append(h)
    return hs


def check_property(prop, tier, seed, only=None, jobs=0, do_replay=True, write_evidence=True, fail_fast=False):
    t0 = time.time()
    plan = load_plan()
    meta = plan.PROPERTIES.get(prop)
    if meta is None:
        print("unknown or unclaimed property %s" % prop)
        return 2
    hs = select(plan, prop, tier, only)
    if not hs:
        print("no harness for %s at tier %s" % (prop, tier))
        return 2
    known, fixed = load_known()
    logdir = os.path.join(core.cache_root(), "logs", prop + "-" + tier)
    shutil.rmtree(logdir, ignore_errors=True)
    os.makedirs(logdir, exist_ok=True)
    # seed only permutes scheduling order; verdicts do not depend on it
    order = sorted(hs, key=lambda h: -h.get("est_s", 60))
    if fail_fast:
        order = sorted(hs, key=lambda h: h.get("est_s", 60))  # cheapest first: a violation is usually established early
    if seed:
        k = seed % len(order)
        order = order[k:] + order[:k]
    budget_gb = float(os.environ.get("VERIF_MEM_GB", "52"))
    par = jobs or max(1, min(len(order), 12))
    try:
        slots = core.acquire_slots(par)
    except core.InfraError as e:
        print("INFRA: %s" % e)
        return 2
    results = []
    lock = threading.Lock()
    queue = list(order)

    cond = threading.Condition(lock)
    inuse = [0.0]

    def worker(slot):
        while True:
            with cond:
                if not queue:
                    return
                # memory-aware admission: sum of declared mem_gb of running harnesses <= budget
                while True:
                    if not queue:
                        return
                    pick = next((h for h in queue if inuse[0] + h.get("mem_gb", 12) <= budget_gb), None)
                    if pick is None and inuse[0] == 0:
                        pick = queue[0]
                    if pick is not None:
                        break
                    cond.wait(5)
                spec = pick
                queue.remove(spec)
                inuse[0] += spec.get("mem_gb", 12)
            try:
                r = run_harness(spec, slot, prop, logdir)
            except Exception as e:  # InfraError or anything unexpected: never leave `inuse` raised (the other workers would wait for ever)
                r = {"spec": spec, "rc": -1, "timed_out": False, "wall_s": 0,
                     "parsed": {"checks": [], "stubs": [], "verdict": None, "stats": {}, "compile_error": False,
                                "playback": []}, "log": None, "cmd": "", "infra": "%s: %s" % (type(e).__name__, e)}
            r["cls"] = classify(spec, prop, r["parsed"], r["timed_out"], r["rc"])
            if r.get("infra"):
                r["cls"].update(status="infra", reason=r["infra"])
            if r["rc"] == -9 and "CANCELLED" in (r.get("raw_head") or ""):
                r["cls"].update(status="cancelled", reason="fail-fast")
            if fail_fast and r["cls"]["status"] == "fail" and any(not match_known(known, prop, spec["name"], f) for f in r["cls"]["failures"]):
                # a violation is established for native-twin-free harnesses directly; for playback harnesses the
                # replay below still decides VIOLATION vs UNREPRODUCED
                core.CANCEL.set()
                with cond:
                    del queue[:]
                    cond.notify_all()
            with cond:
                inuse[0] -= spec.get("mem_gb", 12)
                cond.notify_all()
                results.append(r)
                c = r["cls"]
                print("  [%s] %-44s %-12s %6.1fs%s %s" % (prop, spec["name"], c["status"], r["wall_s"], " (reused)" if r.get("reused") else "", c["reason"]))
                sys.stdout.flush()

    print("check %s tier=%s: %d harness(es), %d in parallel, repo %s" %
          (prop, tier, len(order), len(slots), json.dumps(core.repo_state())))
    sys.stdout.flush()
    ths = [threading.Thread(target=worker, args=(s,)) for s in slots]
    for t in ths:
        t.start()
    for t in ths:
        t.join()
    core.CANCEL.clear()  # (fail-fast) native replay below must run normally

    violations, known_hits, inconclusive, infra = [], [], [], []
    for r in results:
        spec, c = r["spec"], r["cls"]
        if c["status"] == "fail":
            new = []
            for f in c["failures"]:
                k = match_known(known, prop, spec["name"], f)
                if k:
                    known_hits.append((spec, f, k))
                else:
                    new.append(f)
            if new:
                violations.append((r, new))
            else:
                c["status"] = "known"
        elif c["status"] == "inconclusive":
            if spec.get("optional"):
                c["status"] = "skipped-optional"
            else:
                inconclusive.append(r)
        elif c["status"] == "infra":
            infra.append(r)

    seen = set()
    for spec, f, k in known_hits:
        key = (k.get("harness"), k.get("match"))
        if key in seen:
            continue
        seen.add(key)
        print("KNOWN-FINDING: property=%s %s [harness %s: %s]" % (prop, k.get("what", ""), spec["name"], f["desc"]))

    # ---- counterexamples: extract the assignment, replay natively, report
    reported = []
    unreproduced = []
    os.makedirs(os.path.join(VERIF, "replays"), exist_ok=True)
    for r, new in violations:
        spec = r["spec"]
        wit = {"property": prop, "harness": spec["name"], "crate": spec["crate"], "tier": tier,
               "failed_checks": [{"desc": f["desc"], "loc": f["loc"], "id": f["id"]} for f in new],
               "what": spec.get("desc"), "bounds": spec.get("bounds"), "repo": core.repo_state(),
               "kani_cmd": r["cmd"], "harness_path": r["parsed"].get("harness_path"), "native": None}
        path = os.path.join(VERIF, "replays", "%s-%s.json" % (prop, spec["name"]))
        mode = spec.get("replay", "playback")
        # Some assertions of a playback harness are evaluated in the model run only (they need the model's log of
        # successful opens, which the native twin - real AEAD - does not have). If every failed assertion is of that
        # kind, native replay cannot speak: the counterexample is reported from the model run, like a model harness.
        mo = spec.get("model_only") or []
        if mode == "playback" and mo and all(any(m in (f["desc"] or "") for m in mo) for f in new):
            mode = "model"
            spec = dict(spec, replay_note="the failed assertion is evaluated in the model run only (it needs the model's log of authenticated chunks)")
        reproduced = None
        if do_replay and mode == "playback":
            pr = run_harness(spec, slots[0], prop, logdir, playback=True)
            tests = pr["parsed"].get("playback") or []
            norm = lambda x: re.sub(r'[\\"]', "", x or "").strip()
            want = [norm(f["desc"]) for f in new]
            chosen = [t for t in tests if norm(t["check"]) in want] or [t for t in tests if "cover condition" not in (t["check"] or "")] or tests
            wit["playback_tests"] = chosen[:4]
            reproduced = False
            nat = []
            for i, t in enumerate(chosen[:3]):
                res = native_playback(spec, slots[0], pr["parsed"].get("harness_path") or r["parsed"].get("harness_path"),
                                      t["vals"], logdir, "cex%d" % i)
                nat.append({"check": t["check"], "result": res})
                if res["dev"]["reproduced"] or res["release"]["reproduced"]:
                    reproduced = True
                    break
            wit["native"] = nat
        elif mode == "model":
            wit["native"] = "not replayed natively: " + spec.get("replay_note", "environment-model harness")
            reproduced = None
        wit["reproduced"] = reproduced
        with open(path, "w") as f:
            json.dump(wit, f, indent=1)
        if reproduced is False:
            unreproduced.append((r, new, path))
        else:
            reported.append((r, new, path))

    rc = 0
    for r, new, path in reported:
        for f in new[:5]:
            print("  counterexample: harness %s: %s @ %s" % (r["spec"]["name"], f["desc"], f["loc"]))
        print("VIOLATION property=%s replay=%s" % (prop, path))
        rc = 1
    for r, new, path in unreproduced:
        print("UNREPRODUCED: harness %s: solver counterexample did not reproduce natively (%s): "
              "treated as a defect of the harness/model, not reported as a violation; see %s" %
              (r["spec"]["name"], new[0]["desc"], path))
        if rc == 0:
            rc = 2
    if rc == 0 and (inconclusive or infra):
        for r in inconclusive + infra:
            print("INCONCLUSIVE: harness %s: %s (log %s)" % (r["spec"]["name"], r["cls"]["reason"], r["log"]))
        rc = 2

    wall = time.time() - t0
    if write_evidence:
        write_ev(prop, tier, seed, meta, results, rc, len(reported), wall, known_hits)
    for s in slots:
        s.release()
    print("check %s tier=%s: %s in %.0fs (%d/%d harnesses discharged)" %
          (prop, tier, {0: "HOLDS within bounds", 1: "VIOLATION", 2: "INCONCLUSIVE"}[rc], wall,
           sum(1 for r in results if r["cls"]["status"] == "pass"), len(results)))
    return rc


def write_ev(prop, tier, seed, meta, results, rc, nviol, wall, known_hits):
    hv = []
    funcs = set()
    stubs = set()
    tot_vcc = tot_nt = 0
    solver_s = 0.0
    samples = []
    for r in sorted(results, key=lambda r: r["spec"]["name"]):
        spec, p, c = r["spec"], r["parsed"], r["cls"]
        st = p.get("stats", {})
        tot_vcc += st.get("vccs", 0)
        tot_nt += st.get("vccs_nontrivial", 0)
        solver_s += st.get("solver_s", 0.0)
        for ch in p["checks"]:
            loc = ch.get("loc") or ""
            if (ch.get("fn") and re.match(r"^src/(crypto|cli|ffi)/src/", loc) and ":0:0 " not in loc and "verif_" not in ch["fn"]
                    and not re.match(r"^<?(alloc|core|std|kani|anyhow|orion|zeroize|ct_codecs)::", ch["fn"])):
                funcs.add(ch["fn"])
        for s in p.get("stubs", []):
            stubs.add(re.sub(r"\s+", "", s))
        tagged = [ch for ch in p["checks"] if prop in tags_of(ch["desc"])]
        hv.append({
            "harness": spec["name"], "crate": spec["crate"], "status": c["status"], "reason": c["reason"],
            "decides": spec.get("desc"), "bounds": spec.get("bounds"), "outside": spec.get("outside"),
            "declared_functions": spec.get("funcs"), "environment": spec.get("env"),
            "optional": bool(spec.get("optional")),
            "checks_total": len(p["checks"]),
            "checks_tagged_for_property": len(tagged),
            "tagged_status": dict((s, sum(1 for ch in tagged if ch["status"] == s))
                                  for s in set(ch["status"] for ch in tagged)),
            "covers": c["covers"], "wall_s": r["wall_s"], "cbmc": st, "cmd": r["cmd"],
            "reused_result_of_identical_tree": bool(r.get("reused")),
            "failures": [{"desc": f["desc"], "loc": f["loc"]} for f in c["failures"]][:10],
            "failures_attributed_to_other_properties": [f["desc"] for f in c["other_failures"]][:10],
        })
        if len(samples) < 12:
            samples.append({"harness": spec["name"], "obligation": spec.get("desc"),
                            "assertions": sorted(set(ch["desc"] for ch in tagged))[:8],
                            "reachability_witnesses": [cv["desc"] for cv in c["covers"]][:6],
                            "verdict": c["status"]})
    required = [r for r in results if not r["spec"].get("optional")]
    ev = {
        "property_id": prop, "tier": tier, "seed": seed, "level": "model_checking",
        "coverage": {
            "evaluations": max(tot_vcc, 1),
            "distinct_nontrivial": max(tot_nt, 0),
            "rule": "Bounded model checking, not sampling: each harness runs the real kestrel functions once, "
                    "symbolically, over ALL inputs within its stated bound. evaluations = verification conditions "
                    "CBMC generated over all harnesses of this run; distinct_nontrivial = those CBMC reports as "
                    "'remaining after simplification', i.e. that were not discharged syntactically and went to the "
                    "SAT solver. obligations = harnesses run; discharged = harnesses with VERIFICATION SUCCESSFUL "
                    "(or all assertions tagged for this property SUCCESS), unwinding assertions on, and every "
                    "kani::cover! reachability witness SATISFIED.",
            "samples": samples,
            "obligations": len(results),
            "discharged": sum(1 for r in results if r["cls"]["status"] == "pass"),
            "required_obligations": len(required),
            "required_discharged": sum(1 for r in required if r["cls"]["status"] == "pass"),
            "checker_cmd": "cargo kani -p <crate> --harness <h> -Z stubbing [--cbmc-args --unwindset ...] on a fresh copy of /repo's working tree (see harnesses[].cmd)",
            "trusted_base": TRUSTED_BASE,
            "exhaustive": False,
            "explanation": meta.get("claim", ""),
            "functions_encoded": sorted(funcs),
            "stubs_applied": sorted(stubs),
            "solver_seconds": round(solver_s, 2),
            "harnesses": hv,
            "known_findings_reported": [k.get("what") for _, _, k in known_hits],
            "outside_the_claim": meta.get("outside", ""),
            "repo": core.repo_state(),
            "exit_code": rc,
        },
        "assumptions": meta.get("assumptions", []),
        "wall_s": round(wall, 1),
        "violations": nviol,
    }
    d = os.path.join(VERIF, "evidence")
    os.makedirs(d, exist_ok=True)
    tmp = os.path.join(d, prop + ".json.tmp")
    with open(tmp, "w") as f:
        json.dump(ev, f, indent=1)
    os.replace(tmp, os.path.join(d, prop + ".json"))


def replay_file(prop, path):
    """Re-run the native replay recorded in a witness file against the current tree."""
    wit = json.load(open(path))
    plan = load_plan()
    spec = next((h for h in plan.HARNESSES if h["name"] == wit["harness"]), None)
    if spec is None:
        print("harness %s no longer exists" % wit["harness"])
        return 2
    tests = wit.get("playback_tests") or []
    if not tests:
        print("witness has no concrete assignment; re-running the harness instead")
        return check_property(prop, wit.get("tier", "quick"), 0, only="^" + re.escape(spec["name"]) + "$",
                              write_evidence=False)
    slots = core.acquire_slots(1)
    logdir = os.path.join(core.cache_root(), "logs", prop + "-replay")
    os.makedirs(logdir, exist_ok=True)
    try:
        res = native_playback(spec, slots[0], wit["harness_path"], tests[0]["vals"], logdir, "replay")
    finally:
        for s in slots:
            s.release()
    print(json.dumps(res, indent=1))
    if res["dev"]["reproduced"] or res["release"]["reproduced"]:
        print("VIOLATION property=%s replay=%s" % (prop, path))
        return 1
    print("replay did not reproduce on the current tree")
    return 0
